"""Verdicts, evidence, replay files, known findings (DESIGN 3.7)."""

from __future__ import annotations

import hashlib
import json
import os
import re
import time
from typing import Any, Dict, List, Optional

from .frontend import AnalysisError, Program

VERIF = os.path.dirname(os.path.dirname(os.path.abspath(__file__)))
if os.environ.get("SA_NO_EVIDENCE"):
    # self-tests and seed runs on scratch copies must not touch the committed evidence
    import tempfile as _tf
    import atexit as _ae
    import shutil as _sh
    _scratch = _tf.mkdtemp(prefix="sa_scratch_")
    _ae.register(_sh.rmtree, _scratch, True)
    EVIDENCE_DIR = os.path.join(_scratch, "evidence")
    REPLAY_DIR = os.path.join(_scratch, "replay")
else:
    EVIDENCE_DIR = os.path.join(VERIF, "evidence")
    REPLAY_DIR = os.path.join(VERIF, "replay")
KNOWN_FILE = os.path.join(VERIF, "KNOWN_FINDINGS.txt")


class Finding:
    def __init__(self, pid: str, rule: str, where: str, construct: str, message: str,
                 witness: Any = None, path: Any = None, line: Optional[int] = None):
        self.pid = pid
        self.rule = rule
        self.where = where  # module:qualname
        self.construct = " ".join(str(construct).split())
        self.message = message
        self.witness = witness
        self.path = path
        self.line = line

    @property
    def key(self) -> str:
        return f"{self.rule}|{self.where}|{self.construct}"

    def slug(self) -> str:
        base = re.sub(r"[^A-Za-z0-9_.]+", "-", f"{self.rule}-{self.where.split(':')[-1]}")[:60].strip("-")
        h = hashlib.sha1(self.key.encode()).hexdigest()[:8]
        return f"{self.pid}-{base}-{h}"

    def to_json(self) -> Dict[str, Any]:
        return {
            "property": self.pid,
            "rule": self.rule,
            "where": self.where,
            "construct": self.construct,
            "key": self.key,
            "line_for_reader_only": self.line,
            "message": self.message,
            "witness": self.witness,
            "path": self.path,
        }


def load_known() -> Dict[str, Dict[str, str]]:
    """key -> {'property':..., 'desc':...} for 'known:' lines only. 'fixed:' lines suppress nothing."""
    out: Dict[str, Dict[str, str]] = {}
    if not os.path.isfile(KNOWN_FILE):
        return out
    with open(KNOWN_FILE, encoding="utf-8") as f:
        for line in f:
            line = line.rstrip("\n")
            if not line.startswith("known:"):
                continue
            m = re.match(r"known:\s+property=(\S+)\s+key=(.*?)\s+::\s+(.*)$", line)
            if not m:
                continue
            out[m.group(2).strip()] = {"property": m.group(1), "desc": m.group(3).strip()}
    return out


class SharedCtx:
    """A view of a Ctx for obligations shared between properties: `rename(rule)` gives the rule name under which an obligation of
    the sibling property counts for this one, or None when that obligation is not a necessary condition of this property (it is
    then neither counted nor reported).  Everything else is the underlying Ctx."""

    def __init__(self, ctx: "Ctx", rename: Any, select: Any = None):
        self.__dict__["_ctx"] = ctx
        self.__dict__["_rename0"] = rename
        self.__dict__["_select"] = select       # optional: which obligations of a rule are shared, by their description

    def _rename(self, rule: str, what: Any = "") -> Any:
        r = self._rename0(rule)
        if r is not None and self._select is not None and not self._select(str(what)):
            return None
        return r

    def __getattr__(self, name: str) -> Any:
        return getattr(self._ctx, name)

    def __setattr__(self, name: str, value: Any) -> None:
        setattr(self._ctx, name, value)

    def ok(self, rule: str, what: str, **detail: Any) -> None:
        r = self._rename(rule, what)
        if r is not None:
            self._ctx.ok(r, what, **detail)

    def fail(self, rule: str, where: str, construct: Any, message: str, witness: Any = None, path: Any = None, line: Optional[int] = None) -> None:
        r = self._rename(rule, message)
        if r is not None:
            self._ctx.fail(r, where, construct, message, witness, path, line)

    def check(self, cond: bool, rule: str, what: str, where: str, construct: Any, message: str = "", witness: Any = None,
              line: Optional[int] = None, **detail: Any) -> bool:
        r = self._rename(rule, what)
        if r is not None:
            return self._ctx.check(cond, r, what, where, construct, message, witness, line, **detail)
        return cond


class Ctx:
    def __init__(self, pid: str, tier: str, seed: int, prog: Program, quiet: bool = False):
        self.pid = pid
        self.tier = tier
        self.seed = seed
        self.prog = prog
        self.quiet = quiet
        self.obligations = 0
        self.discharged = 0
        self.findings: List[Finding] = []
        self.samples: List[Any] = []
        self.counters: Dict[str, int] = {}
        self.assumptions: List[str] = []
        self.trusted: List[str] = []
        self.infos: List[str] = []
        self.distinct: set = set()
        self.rules: Dict[str, Dict[str, int]] = {}
        self.extra: Dict[str, Any] = {}
        self.explanation = ""
        self.t0 = time.time()

    # ---- obligations --------------------------------------------------------------
    def _rule(self, rule: str) -> Dict[str, int]:
        return self.rules.setdefault(rule, {"obligations": 0, "discharged": 0})

    def ok(self, rule: str, what: str, **detail: Any) -> None:
        self.obligations += 1
        self.discharged += 1
        r = self._rule(rule)
        r["obligations"] += 1
        r["discharged"] += 1
        self.distinct.add((rule, what))
        if len(self.samples) < 400:
            s = {"rule": rule, "obligation": what, "result": "discharged"}
            s.update(detail)
            self.samples.append(s)

    def fail(self, rule: str, where: str, construct: Any, message: str, witness: Any = None,
             path: Any = None, line: Optional[int] = None) -> None:
        self.obligations += 1
        self._rule(rule)["obligations"] += 1
        f = Finding(self.pid, rule, where, str(construct), message, witness, path, line)
        for g in self.findings:
            if g.key == f.key:
                return
        self.findings.append(f)
        self.samples.insert(0, {"rule": rule, "obligation": message, "result": "REFUTED", "where": where,
                                "construct": f.construct})

    def check(self, cond: bool, rule: str, what: str, where: str, construct: Any, message: str = "",
              witness: Any = None, line: Optional[int] = None, **detail: Any) -> bool:
        if cond:
            self.ok(rule, what, where=where, **detail)
        else:
            self.fail(rule, where, construct, message or ("refuted: " + what), witness, line=line)
        return cond

    def require(self, cond: bool, what: str) -> None:
        """An anchor / modelling precondition; failing it is 'cannot decide', never a violation."""
        if not cond:
            raise AnalysisError(what)

    def min_count(self, what: str, measured: int, minimum: int) -> None:
        self.counters[what] = measured
        if measured < minimum:
            raise AnalysisError(f"instance count for '{what}' is {measured}, below the logical minimum {minimum}")

    def count(self, name: str, n: int = 1) -> None:
        self.counters[name] = self.counters.get(name, 0) + n

    def info(self, msg: str) -> None:
        self.infos.append(msg)

    def assume(self, *texts: str) -> None:
        for t in texts:
            if t not in self.assumptions:
                self.assumptions.append(t)

    def trust(self, *texts: str) -> None:
        for t in texts:
            if t not in self.trusted:
                self.trusted.append(t)

    # ---- finishing ------------------------------------------------------------------
    def finish(self) -> int:
        known = load_known()
        new: List[Finding] = []
        known_hit: List[Finding] = []
        for f in self.findings:
            if f.key in known and known[f.key]["property"] == self.pid:
                known_hit.append(f)
            else:
                new.append(f)
        wall = time.time() - self.t0
        inv = self.prog.inventory()
        cov: Dict[str, Any] = {
            "explanation": self.explanation or f"static analysis of {self.pid}",
            "rule": "each obligation is one (rule, site/scenario) pair derived from the current source; "
                    "distinct_nontrivial counts distinct (rule, obligation-text) pairs that were actually evaluated",
            "obligations": self.obligations,
            "discharged": self.discharged,
            "evaluations": max(self.obligations, 1),
            "distinct_nontrivial": len(self.distinct) + len(self.findings),
            "per_rule": self.rules,
            "samples": self.samples[:60] if self.samples else [{"note": "no obligations"}],
            "counters": self.counters,
            "units_parsed": inv["units"],
            "functions_parsed": inv["functions"],
            "classes_parsed": inv["classes"],
            "trusted_base": self.trusted,
            "checker_cmd": f"/venv/bin/python -m sa.cli check {self.pid} --tier {self.tier}",
            "infos": self.infos[:50],
            "known_findings_reported": [f.key for f in known_hit],
            "violations_new": [f.to_json() for f in new],
            "exhaustive": True,
        }
        cov.update(self.extra)
        ev = {
            "property_id": self.pid,
            "tier": self.tier,
            "seed": self.seed,
            "level": "other",
            "coverage": cov,
            "assumptions": self.assumptions,
            "wall_s": round(wall, 3),
            "violations": len(new),
        }
        os.makedirs(EVIDENCE_DIR, exist_ok=True)
        tmp = os.path.join(EVIDENCE_DIR, f".{self.pid}.json.tmp")
        with open(tmp, "w", encoding="utf-8") as fh:
            json.dump(ev, fh, indent=1, sort_keys=False, default=str)
            fh.write("\n")
        os.replace(tmp, os.path.join(EVIDENCE_DIR, f"{self.pid}.json"))

        if not self.quiet:
            print(f"[{self.pid}] tier={self.tier} units={inv['units']} functions={inv['functions']} "
                  f"obligations={self.obligations} discharged={self.discharged} "
                  f"rules={len(self.rules)} wall={wall:.2f}s")
            for k, v in sorted(self.counters.items()):
                print(f"[{self.pid}]   {k} = {v}")
            for i in self.infos[:20]:
                print(f"[{self.pid}] INFO {i}")
        for f in known_hit:
            print(f"KNOWN-FINDING: property={self.pid} {known[f.key]['desc']}")
        if new:
            os.makedirs(REPLAY_DIR, exist_ok=True)
        for f in new:
            p = os.path.join(REPLAY_DIR, f.slug() + ".json")
            with open(p, "w", encoding="utf-8") as fh:
                json.dump(f.to_json(), fh, indent=1, default=str)
                fh.write("\n")
            print(f"{f.rule} VIOLATED  {f.where}" + (f" (line {f.line})" if f.line else ""))
            print(f"  construct: {f.construct}")
            print(f"  {f.message}")
            if f.witness is not None:
                print(f"  witness: {f.witness}")
            print(f"VIOLATION property={self.pid} replay={p}")
        return 1 if new else 0
