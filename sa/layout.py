"""Rendering model extracted by Engine A from Tag.get_html_string / TagList.get_html_string,
a simulator for it, and the specification renderer written from the property text (DESIGN 4, C05-C07)."""

from __future__ import annotations

import ast
from typing import Any, Dict, FrozenSet, List, Optional, Tuple

from .frontend import AnalysisError, Program, norm
from .interp import Config, Interp, Leaf
from .values import (ALL_KINDS, ANY_VALUE_KINDS, META_KINDS, NODE_KINDS, Frag, SBool, SInt, SList, SNew, SObj, SOpaque, SStr, Sym,
                     Unmodelled, short)

CORE = "htmltools._core"
CHILD_KINDS = sorted(NODE_KINDS - {"TAGLIST"})
VISIBLE_KINDS = sorted(set(CHILD_KINDS) - META_KINDS)
OPAQUE = {"Tag.get_html_string", "TagList.get_html_string", "JSXTag._repr_html_", "JSXTag.__str__", "JSXTag.tagify",
          "JSXTag.__repr__",
          # whole-tree entry points: rendering a child through one of them is a nested rendering, not part of the frame
          "Tag.__str__", "TagList.__str__", "Tag.__repr__", "TagList.__repr__", "Tag._repr_html_", "TagList._repr_html_",
          "Tag.render", "TagList.render", "Tag.tagify", "TagList.tagify", "HTMLDependency.__str__", "HTMLDependency.__repr__",
          "HTMLDependency.as_html_tags"}


# ---------------------------------------------------------------------------------------
# canonical tokens
# ---------------------------------------------------------------------------------------

def canon_arg(v: Any) -> Any:
    if isinstance(v, SInt):
        if v.base == "indent":
            return ("indent", v.off)
        return ("int", repr(v))
    if isinstance(v, SStr):
        if len(v.frags) == 1 and v.frags[0].kind == "VAR":
            return ("var", v.frags[0].a)
        if v.is_const():
            return ("const", v.const())
        return ("str", repr(v))
    if isinstance(v, SBool):
        return ("bool", v.atom)
    if isinstance(v, SObj):
        return ("obj", v.name)
    if isinstance(v, Sym):
        return ("sym", short(v))
    return ("const", v)


def canon(s: Any, self_name: str = "self") -> List[Tuple[Any, ...]]:
    """Canonical token list of a symbolic string (adjacent literals merged)."""
    if isinstance(s, str):
        s = SStr([Frag("LIT", s)])
    if not isinstance(s, SStr):
        return [("NONSTRING", short(s))]
    out: List[Tuple[Any, ...]] = []
    for f in s.frags:
        if f.kind == "LIT":
            if out and out[-1][0] == "LIT":
                out[-1] = ("LIT", out[-1][1] + f.a)
            else:
                out.append(("LIT", f.a))
        elif f.kind == "VAR":
            out.append(("EOL",) if f.a == "eol" else ("VAR", f.a))
        elif f.kind == "REP":
            cnt = f.b
            if f.a == "  " and isinstance(cnt, SInt) and cnt.base == "indent":
                out.append(("INDENT", cnt.off))
            else:
                out.append(("REP", f.a, repr(cnt)))
        elif f.kind == "OF":
            nm = f.a[1]
            if nm == f"{self_name}.name":
                out.append(("NAME",) if not f.c else ("NAME-ESCAPED", tuple(f.c)))
            elif f.b == "UNKNOWN":
                raise Unmodelled(f"rendered output contains a string whose content the analysis does not know: {nm}")
            else:
                out.append(("TEXT", f.b, tuple(f.c or ()), nm))
        elif f.kind == "OP":
            d = f.a
            if isinstance(d, tuple) and d and d[0] == "call":
                q = d[1]
                p = f.b or {}
                if q == "Tag.get_html_string":
                    a = _bind(p, ["indent", "eol"] + list(_TAG_EXTRA))
                    if len(p.get("args", [])) > 2 + len(_TAG_EXTRA) or p.get("dstar"):
                        raise Unmodelled("Tag.get_html_string called with more arguments than it declares")
                    extras = tuple(sorted((k, canon_arg(v)) for k, v in a.items() if k not in ("indent", "eol")))
                    out.append(("TAG", canon_arg(a.get("indent", _DEF["indent"])), canon_arg(a.get("eol", _DEF["eol"])),
                                extras, _recv(p)))
                elif q == "TagList.get_html_string":
                    a = _bind(p, ["indent", "eol"])
                    out.append(("CHILDREN", canon_arg(a.get("indent", _DEF["indent"])), canon_arg(a.get("eol", _DEF["eol"])),
                                canon_arg(a.get("add_ws", True)), canon_arg(a.get("_escape_strings", True)), _recv(p)))
                elif q in ("JSXTag._repr_html_", "JSXTag.__str__", "JSXTag.__repr__"):
                    out.append(("TEXT", "REPRHTML", tuple(f.c or ()), _recv(p)))
                else:
                    out.append(("CALL", q, tuple(f.c or ())))
            elif isinstance(d, tuple) and d and d[0] == "join" and d[1] == "" and isinstance(f.b, dict) and "over" in f.b:
                out.append(("JOINMAP", f.b))
            else:
                out.append(("OP", _plain(d), tuple(f.c or ())))
        elif f.kind == "ACC":
            out.append(("ACC", f.a))
        elif f.kind == "LOOP":
            out.append(("LOOP", f.b, tuple(f.a) if isinstance(f.a, tuple) else f.a))
        else:
            out.append((f.kind, repr(f.a)))
    return _merge_indent(out)


def _units(t: str) -> Optional[int]:
    return len(t) // 2 if t and t == "  " * (len(t) // 2) else None


def _merge_indent(toks: List[Tuple[Any, ...]]) -> List[Tuple[Any, ...]]:
    """'  ' * 7 + '  ' * (indent - 8) is INDENT(indent - 1): literals made of whole indentation units join a neighbouring INDENT."""
    res: List[Tuple[Any, ...]] = []
    for t in toks:
        if res and t[0] == "INDENT" and res[-1][0] == "LIT" and _units(res[-1][1]) is not None:
            res[-1] = ("INDENT", t[1] + _units(res[-1][1]))
        elif res and t[0] == "LIT" and _units(t[1]) is not None and res[-1][0] == "INDENT":
            res[-1] = ("INDENT", res[-1][1] + _units(t[1]))
        else:
            res.append(t)
    return res


def indent_is_zero(atoms: Any) -> bool:
    """Do the path's comparisons on the `indent` parameter admit indent == 0 and no positive level?  (`if indent <= 0:
    return ""` is the same as "  " * indent there; the generic paths cover every positive level.)"""
    cons = []
    for a, val in atoms:
        if not (isinstance(a, tuple) and a and a[0] == "cmp" and len(a) == 4):
            continue
        l, r = getattr(a[2], "v", a[2]), getattr(a[3], "v", a[3])
        for x, y, op in ((l, r, a[1]), (r, l, {"<": ">", "<=": ">=", ">": "<", ">=": "<="}.get(a[1], a[1]))):
            if isinstance(x, SInt) and x.base == "indent" and isinstance(y, int) and not isinstance(y, bool):
                cons.append((op, x.off, y, bool(val)))
    for a, val in atoms:
        if isinstance(a, tuple) and a and a[0] == "nonzero" and a[1] == "indent":
            cons.append(("!=", 0, 0, bool(val)))
    if not cons:
        return False
    import operator as _o
    f = {"==": _o.eq, "!=": _o.ne, "<": _o.lt, "<=": _o.le, ">": _o.gt, ">=": _o.ge}

    def sat(n: int) -> bool:
        return all(f[op](n + off, c) is want for op, off, c, want in cons if op in f)
    return sat(0) and not any(sat(n) for n in range(1, 200))


def at_indent_zero(toks: List[Tuple[Any, ...]]) -> List[Tuple[Any, ...]]:
    """Token stream specialised to indent == 0 (INDENT(0) is the empty string, INDENT(k) is k units)."""
    out: List[Tuple[Any, ...]] = []
    for t in toks:
        if t[0] == "INDENT":
            if t[1] > 0:
                out.append(("LIT", "  " * t[1]))
            continue
        if t[0] in ("TAG", "CHILDREN"):
            t = tuple(("const", x[1]) if isinstance(x, tuple) and len(x) == 2 and x[0] == "indent" else x for x in t)
        out.append(t)
    return out


_DEF = {"indent": 0, "eol": "\n"}


def _bind(p: Dict[str, Any], names: List[str]) -> Dict[str, Any]:
    out = dict(p.get("kwargs", {}))
    for n, v in zip(names, p.get("args", [])):
        out[n] = v
    return out


def _recv(p: Dict[str, Any]) -> str:
    r = p.get("recv")
    return getattr(r, "name", short(r))


def _plain(d: Any) -> Any:
    if isinstance(d, tuple):
        return tuple(_plain(x) for x in d)
    if isinstance(d, Sym):
        return short(d)
    return d


def strip_names(tokens: List[Tuple[Any, ...]]) -> List[Tuple[Any, ...]]:
    """Drop the object names kept for diagnostics so that streams can be compared."""
    out = []
    for t in tokens:
        if t[0] == "TEXT":
            out.append(t[:3])
        elif t[0] == "TAG":
            out.append(t[:3])
        elif t[0] == "CHILDREN":
            out.append(t[:5])
        else:
            out.append(t)
    return out


# ---------------------------------------------------------------------------------------
# extraction
# ---------------------------------------------------------------------------------------

class SibRow:
    def __init__(self, leaf: Leaf, element: SObj, carried: List[str]):
        self.leaf = leaf
        self.element = element
        self.kinds = frozenset(element.kinds)
        self.outcome = leaf.kind
        self.exc = leaf.value.cls_name if leaf.kind == "raise" and isinstance(leaf.value, SNew) else None
        self.cond: Dict[Any, Any] = {}
        self.free: List[Any] = []
        self.tokens: List[Tuple[Any, ...]] = []
        self.next: Dict[str, Any] = {}
        self.acc_ok = True
        self.indent_zero = indent_is_zero(leaf.atoms)


class SkipRow:
    """The sibling loop never sees a child of these kinds: its iterable is a filtered view of the children (the step emits
    nothing and leaves the loop state as it is, like a `continue` at the top of the body)."""

    def __init__(self, kinds: Any):
        self.leaf = None
        self.element = None
        self.kinds = frozenset(kinds)
        self.outcome = "continue"
        self.exc = None
        self.cond: Dict[Any, Any] = {}
        self.free: List[Any] = []
        self.tokens: List[Tuple[Any, ...]] = []
        self.next: Dict[str, Any] = {}
        self.acc_ok = True
        self.indent_zero = False


class Model:
    def __init__(self) -> None:
        self.sib_skip: Any = None
        self.sib_rows: List[SibRow] = []
        self.sib_carried: List[str] = []
        self.sib_acc: str = ""
        self.sib_init: Dict[str, Any] = {}
        self.sib_return: List[Tuple[Any, ...]] = []
        self.sib_iter_ok = True
        self.sib_iter_text = ""
        self.frame_leaves: List[Leaf] = []
        self.attr_rows: List[Dict[str, Any]] = []
        self.attr_iter_text = ""
        self.void: FrozenSet[str] = frozenset()
        self.noesc: FrozenSet[str] = frozenset()
        self.defaults: Dict[str, Any] = {}
        self.tag_extra: Dict[str, Any] = {}
        self.tag_extra_passed: Dict[str, set] = {}   # extra parameter -> canonical arguments passed by the sibling loop
        self.stats: Dict[str, int] = {}


def _tl_args(run: Any) -> Tuple[Dict[str, Any], Any]:
    s = SObj("self", {"TAGLIST"})
    return ({"self": s, "indent": SInt("indent"), "eol": SStr([Frag("VAR", "eol")]),
             "add_ws": SBool(("param", "add_ws")), "_escape_strings": SBool(("param", "_escape_strings"))}, s)


_TAG_EXTRA: Dict[str, Any] = {}     # extra parameters of Tag.get_html_string (beyond self, indent, eol) -> folded default


def _tag_args(run: Any) -> Tuple[Dict[str, Any], Any]:
    s = SObj("self", {"TAG"})
    run.__dict__["frame_self_uid"] = s.uid
    b: Dict[str, Any] = {"self": s, "indent": SInt("indent"), "eol": SStr([Frag("VAR", "eol")])}
    for nm, d in _TAG_EXTRA.items():
        # a boolean extra parameter is explored for both values; which ones are reachable is decided from the call sites
        b[nm] = SBool(("param", nm)) if isinstance(d, bool) else d
    return (b, s)


def extract(prog: Program) -> Model:
    I = Interp(prog)
    m = Model()
    m.void = frozenset(prog.fold_name(CORE, "_VOID_TAG_NAMES"))
    m.noesc = frozenset(prog.fold_name(CORE, "_NO_ESCAPE_TAG_NAMES"))
    fn_tl = prog.function(CORE, "TagList.get_html_string")
    fn_tag = prog.function(CORE, "Tag.get_html_string")
    m.defaults = {"taglist": _defaults(prog, fn_tl), "tag": _defaults(prog, fn_tag)}
    _TAG_EXTRA.clear()
    a_ = fn_tag.args
    if a_.vararg or a_.kwarg:
        raise Unmodelled("Tag.get_html_string takes *args/**kwargs")
    for p_ in (a_.posonlyargs + a_.args)[3:] + a_.kwonlyargs:
        d_ = m.defaults["tag"].get(p_.arg, ("unfoldable", "no default"))
        if isinstance(d_, tuple) and d_ and d_[0] == "unfoldable":
            raise Unmodelled(f"Tag.get_html_string: extra parameter `{p_.arg}` without a constant default")
        _TAG_EXTRA[p_.arg] = d_
    m.tag_extra = dict(_TAG_EXTRA)

    # ---- sibling loop: summary run (initial state, what is returned) ---------------------------------
    cfg = Config()
    cfg.opaque = set(OPAQUE)
    cfg.loop_effects = False
    leaves = I.run_function(CORE, "TagList.get_html_string", _tl_args, cfg)
    rets = [l for l in leaves if l.kind == "return"]
    if not rets:
        raise Unmodelled("TagList.get_html_string: no returning path")
    loop_recs = [l.run.loops for l in rets]
    if any(len(lr) != 1 for lr in loop_recs):
        raise Unmodelled("TagList.get_html_string: expected exactly one loop over the children on every path")
    rec = rets[0].run.loops[0]
    ret_tokens = {tuple(canon(l.value)) for l in rets}
    if len(ret_tokens) != 1:
        raise Unmodelled("TagList.get_html_string: return value differs between paths outside the loop")
    m.sib_return = list(next(iter(ret_tokens)))
    m.sib_iter_text = norm(rec.node.iter)
    it = rec.iter_value
    m.sib_iter_ok = isinstance(it, SObj) and it.name == "self"
    if isinstance(it, SList) and it.mode == "view" and isinstance(it.base, SObj) and it.base.name == "self" and it.kinds is not None:
        # for child in [x for x in self if <test of x's kind>]: document order, some kinds never reach the body
        m.sib_iter_ok = True
        skipped = frozenset(ANY_VALUE_KINDS) - frozenset(it.kinds)
        if skipped:
            m.sib_skip = SkipRow(skipped)
    # which carried variable is the accumulator: the one whose after-loop value flows to the return
    accs = [t[1] for t in m.sib_return if t[0] == "LOOP"]
    if len(accs) != 1:
        raise Unmodelled(f"TagList.get_html_string: returned string is not one loop accumulation: {m.sib_return}")
    m.sib_acc = accs[0]
    m.sib_carried = [c for c in rec.carried if c != m.sib_acc]
    for c in rec.carried:
        m.sib_init[c] = rec.entry_env.get(c)

    # ---- sibling loop body ---------------------------------------------------------------------------
    cfg2 = Config()
    cfg2.opaque = set(OPAQUE)
    cfg2.stop_at_loop = ("TagList.get_html_string", 0)
    body = I.run_function(CORE, "TagList.get_html_string", _tl_args, cfg2)
    for l in body:
        rec2 = getattr(l.run, "stop_loop_record", None)
        if rec2 is None:
            continue  # path left the function before reaching the loop
        el = rec2.__dict__.get("element")
        if not isinstance(el, SObj):
            raise Unmodelled("TagList.get_html_string: loop target is not a single element variable")
        row = SibRow(l, el, m.sib_carried)
        _fill_row(row, l, el, m)
        m.sib_rows.append(row)
    if not m.sib_rows:
        raise Unmodelled("TagList.get_html_string: loop body produced no paths")
    for row in m.sib_rows:
        for t in row.tokens:
            if t[0] == "TAG" and len(t) > 4:
                for k, v in t[3]:
                    if k not in _TAG_EXTRA:
                        raise Unmodelled(f"Tag.get_html_string called with unknown keyword `{k}`")
                    m.tag_extra_passed.setdefault(k, set()).add(v)
    for k, vs in m.tag_extra_passed.items():
        d_ = _TAG_EXTRA.get(k)
        if not isinstance(d_, bool):
            other = [v for v in vs if not (v[0] == "const" and v[1] is d_ or (v[0] == "const" and type(v[1]) is type(d_) and v[1] == d_))]
            if other:
                # the frame is explored with the default of such a parameter only: another value would select paths nobody looked at
                raise Unmodelled(f"Tag.get_html_string: parameter `{k}` (default {d_!r}) is passed {other[0]} by the sibling loop")

    # ---- element frame ----------------------------------------------------------------------------------
    cfg3 = Config()
    cfg3.opaque = set(OPAQUE) - {"Tag.get_html_string"}
    cfg3.loop_effects = False
    m.frame_leaves = I.run_function(CORE, "Tag.get_html_string", _tag_args, cfg3)

    # ---- loop bodies reached while building the frame (the attribute writer, wherever it lives) ------------------
    keys = []
    for l in m.frame_leaves:
        for rec in l.run.loops:
            k = rec.__dict__.get("loop_key")
            if k is not None and k not in keys:
                keys.append(k)
    for key in keys:
        cfg4 = Config()
        cfg4.opaque = set(OPAQUE) - {"Tag.get_html_string"}
        cfg4.stop_at_loop = key
        for l in I.run_function(CORE, "Tag.get_html_string", _tag_args, cfg4):
            rec4 = getattr(l.run, "stop_loop_record", None)
            if rec4 is None:
                continue
            lp = rec4.node
            m.attr_rows.append({"loop": key, "leaf": l, "iter": norm(lp.iter) if isinstance(lp, ast.For) else "while",
                                "iter_value": rec4.iter_value, "env": l.env, "carried": rec4.carried,
                                "outcome": l.kind, "start": rec4.__dict__.get("body_effect_start", 0)})
    # "".join(<piece> for key, val in self.attrs.items()) - the attribute writer as a comprehension
    for l in m.frame_leaves:
        if l.kind != "return" or not isinstance(l.value, SStr):
            continue
        for f in l.value.frags:
            if f.kind == "OP" and isinstance(f.a, tuple) and f.a[:2] == ("join", "") and isinstance(f.b, dict) and "over" in f.b:
                pay = f.b
                m.attr_rows.append({"loop": "join", "leaf": l, "iter": short(pay["over"]), "iter_value": pay["over"], "env": {}, "carried": [],
                                    "outcome": "fall", "start": 0, "tokens": canon(pay["item"]) if isinstance(pay.get("item"), SStr) else [("NONSTRING",)],
                                    "var": pay.get("var")})
    m.stats = {"sibling_rows": len(m.sib_rows), "frame_leaves": len(m.frame_leaves), "attr_rows": len(m.attr_rows)}
    return m


def _defaults(prog: Program, fn: ast.FunctionDef) -> Dict[str, Any]:
    out: Dict[str, Any] = {}
    a = fn.args
    pos = a.posonlyargs + a.args
    ds = [None] * (len(pos) - len(a.defaults)) + list(a.defaults)
    for p, d in list(zip(pos, ds)) + list(zip(a.kwonlyargs, a.kw_defaults)):
        if d is not None:
            try:
                out[p.arg] = prog.fold(d, prog.core())
            except Exception:
                out[p.arg] = ("unfoldable", norm(d))
    return out


def _fill_row(row: SibRow, l: Leaf, el: SObj, m: Model) -> None:
    for atom, val in l.atoms:
        k = _classify_atom(atom, el)
        if k is None:
            continue
        if k[0] == "free":
            row.free.append((atom, val))
        else:
            row.cond[k] = val if isinstance(val, bool) else val
    env = l.env
    acc = env.get(m.sib_acc)
    toks = canon(acc) if acc is not None else [("MISSING",)]
    if toks and toks[0] == ("ACC", m.sib_acc):
        row.tokens = toks[1:]
    elif l.kind in ("raise",):
        row.tokens = toks[1:] if toks and toks[0][0] == "ACC" else toks
    else:
        row.acc_ok = False
        row.tokens = toks
    for c in m.sib_carried:
        row.next[c] = _next_value(env.get(c), c, el)


def _classify_atom(atom: Any, el: SObj) -> Optional[Tuple[Any, ...]]:
    if not isinstance(atom, tuple):
        return ("free", atom)
    tag = atom[0]
    if tag == "carried":
        name = atom[1].split("@")[0]
        return ("carried", name)
    if tag == "param":
        return ("param", atom[1])
    if tag == "cmp" and len(atom) == 4:
        l, r = getattr(atom[2], "v", atom[2]), getattr(atom[3], "v", atom[3])
        flip = {"<": ">", "<=": ">=", ">": "<", ">=": "<="}
        for a, b, op in ((l, r, atom[1]), (r, l, flip.get(atom[1], atom[1]))):
            if isinstance(a, SInt) and "@" in a.base and isinstance(b, int) and not isinstance(b, bool):
                # a loop-carried counter compared with a constant (offset folded into the constant)
                return ("carried-int", a.base.split("@")[0], op, b - a.off)
    if tag == "nonzero" and isinstance(atom[1], str) and "@" in atom[1] and "+" not in atom[1] and "-" not in atom[1].split("@")[0]:
        return ("carried-int", atom[1].split("@")[0], "!=", 0)
    if tag in ("isinstance", "kind", "kindgroup", "is", "truthy-kind") and len(atom) > 1 and atom[1] == el.uid:
        return None  # subsumed by the element's final kind set
    if tag == "attr" and atom[1] == el.uid:
        return ("elem_attr", atom[2])
    return ("free", atom)


def _next_value(v: Any, name: str, el: SObj) -> Any:
    if isinstance(v, bool):
        return ("const", v)
    if isinstance(v, int):
        return ("const", 0 if v == 0 else "pos" if v > 0 else v)
    if isinstance(v, SInt) and "@" in v.base:
        src = v.base.split("@")[0]
        if v.off == 0:
            return ("same",) if src == name else ("carried", src)
        if v.off > 0 and src == name:
            return ("const", "pos")
    if isinstance(v, SBool):
        a = v.atom
        if isinstance(a, tuple) and a[0] == "carried" and a[1].split("@")[0] == name:
            return ("same",)
        if isinstance(a, tuple) and a[0] == "carried":
            return ("carried", a[1].split("@")[0])
        if isinstance(a, tuple) and a[0] == "attr" and a[1] == el.uid:
            return ("elem_attr", a[2])
        if isinstance(a, tuple) and a[0] == "param":
            return ("param", a[1])
        # a predicate over runtime text (endswith / startswith / substring / emptiness ...): both outcomes occur
        return ("either", short(v))
    return ("unknown", short(v))


# ---------------------------------------------------------------------------------------
# simulator of the extracted sibling transducer
# ---------------------------------------------------------------------------------------

class Child:
    def __init__(self, kind: str, add_ws: Optional[bool] = None):
        self.kind = kind
        self.add_ws = add_ws

    @property
    def block(self) -> bool:
        return self.kind == "TAG" and bool(self.add_ws)

    def key(self) -> Tuple[Any, ...]:
        return (self.kind, self.add_ws)

    def __repr__(self) -> str:
        if self.kind == "TAG":
            return "BLOCK" if self.add_ws else "INLINE"
        return self.kind


def child_classes() -> List[Child]:
    out: List[Child] = []
    for k in CHILD_KINDS:
        if k == "TAG":
            out += [Child("TAG", True), Child("TAG", False)]
        else:
            out.append(Child(k))
    return out


def initial_state(m: Model, params: Dict[str, Any]) -> Dict[str, Any]:
    st: Dict[str, Any] = {}
    for c in m.sib_carried:
        v = m.sib_init.get(c)
        if isinstance(v, bool):
            st[c] = v
        elif isinstance(v, int):
            st[c] = 0 if v == 0 else "pos" if v > 0 else v     # counters are tracked as {0, >=1}
        elif isinstance(v, SBool) and isinstance(v.atom, tuple) and v.atom[0] == "param":
            st[c] = params[v.atom[1]]
        else:
            raise Unmodelled(f"TagList.get_html_string: initial value of loop state `{c}` not modelled: {short(v)}")
    return st


def sib_matches(m: Model, state: Dict[str, Any], child: Child, params: Dict[str, Any]) -> List[SibRow]:
    out = []
    if m.sib_skip is not None and child.kind in m.sib_skip.kinds:
        return [m.sib_skip]
    for r in m.sib_rows:
        if child.kind not in r.kinds:
            continue
        ok = True
        for k, v in r.cond.items():
            if k[0] == "carried-int":
                cur = state.get(k[1])
                op, c = k[2], k[3]
                import operator as _o
                f = {"==": _o.eq, "!=": _o.ne, "<": _o.lt, "<=": _o.le, ">": _o.gt, ">=": _o.ge}[op]
                if cur == 0:
                    truth = f(0, c)
                elif cur == "pos":
                    lo, hi = f(1, c), f(10 ** 9, c)
                    if lo != hi or (op in ("==", "!=") and c >= 1):
                        raise Unmodelled(f"TagList.get_html_string: counter `{k[1]}` compared as {op} {c}: needs more than {{0, >=1}}")
                    truth = lo
                else:
                    raise Unmodelled(f"TagList.get_html_string: counter state {cur!r}")
                if truth is not bool(v):
                    ok = False
            elif k[0] == "carried":
                if state.get(k[1]) is not v:
                    ok = False
            elif k[0] == "param":
                if params.get(k[1]) is not v:
                    ok = False
            elif k[0] == "elem_attr":
                if k[1] == "add_ws":
                    if child.add_ws is not v:
                        ok = False
                else:
                    raise Unmodelled(f"TagList.get_html_string: layout depends on child attribute `{k[1]}`")
            if not ok:
                break
        if ok:
            out.append(r)
    return out


def sib_apply_all(m: Model, row: SibRow, state: Dict[str, Any], child: Child, params: Dict[str, Any]) -> List[Dict[str, Any]]:
    """Successor states; a loop state computed from runtime text may take either value."""
    base = sib_apply(m, row, state, child, params)
    either = [c for c, nv in row.next.items() if nv[0] == "either" and c != m.sib_acc]
    outs = [base]
    for c in either:
        outs = [dict(o, **{c: b}) for o in outs for b in (True, False)]
    return outs


def sib_apply(m: Model, row: SibRow, state: Dict[str, Any], child: Child, params: Dict[str, Any]) -> Dict[str, Any]:
    ns = dict(state)
    for c, nv in row.next.items():
        if c == m.sib_acc or nv[0] == "either":
            continue
        if nv[0] == "const":
            ns[c] = nv[1]
        elif nv[0] == "same":
            pass
        elif nv[0] == "carried":
            ns[c] = state[nv[1]]
        elif nv[0] == "elem_attr":
            if nv[1] != "add_ws" or child.add_ws is None:
                raise Unmodelled(f"TagList.get_html_string: state `{c}` takes child attribute `{nv[1]}` of a non-tag")
            ns[c] = child.add_ws
        elif nv[0] == "param":
            ns[c] = params[nv[1]]
        else:
            raise Unmodelled(f"TagList.get_html_string: next value of loop state `{c}` not modelled: {nv}")
    return ns


# ---------------------------------------------------------------------------------------
# specification (written from the property statement and the Tag docstring; DESIGN section 4)
# ---------------------------------------------------------------------------------------

def spec_text_token(kind: str, escape: bool) -> Optional[Tuple[Any, ...]]:
    if kind in ("STR", "JSXEXPR"):
        return ("TEXT", "PLAIN", ("text",) if escape else ())
    if kind == "HTMLSTR":
        return ("TEXT", "TRUSTED", ())
    if kind in ("REPR_ONLY", "TAGIFIABLE_REPR", "JSXTAG"):
        return ("TEXT", "REPRHTML", ())
    return None


def spec_sib_step(first: bool, prev_block: bool, add_ws: bool, escape: bool, child: Child) -> Dict[str, Any]:
    """One step of spec_list (DESIGN 4).  Returns tokens and the next (first, prev_block)."""
    if child.kind in META_KINDS:
        return {"tokens": [], "first": first, "prev_block": prev_block, "outcome": "skip"}
    if child.kind == "TAGIFIABLE_ONLY":
        return {"tokens": None, "outcome": "raise"}
    block = child.block
    toks: List[Tuple[Any, ...]] = []
    if first:
        start = prev_block  # prev_block is initialised with the enclosing add_ws
    else:
        start = prev_block or block
        if start:
            toks.append(("EOL",))
    if child.kind == "TAG":
        toks.append(("TAG", ("indent", 0), ("var", "eol")) if start else ("TAG", ("const", 0), ("const", "")))
    else:
        if start:
            toks.append(("INDENT", 0))
        toks.append(spec_text_token(child.kind, escape))  # type: ignore[arg-type]
    return {"tokens": toks, "first": False, "prev_block": block, "outcome": "emit"}


def spec_frame(n_vis: int, void: bool, noesc: bool, add_ws: bool, single_kind: Optional[str]) -> List[Tuple[Any, ...]]:
    open_ = [("INDENT", 0), ("LIT", "<"), ("NAME",), ("ATTRS",)]
    close = [("LIT", "</"), ("NAME",), ("LIT", ">")]
    if n_vis == 0:
        if void:
            return _merge(open_ + [("LIT", "/>")])
        return _merge(open_ + [("LIT", ">")] + close)
    if n_vis == 1 and single_kind in ("STR", "JSXEXPR", "HTMLSTR"):
        if single_kind == "HTMLSTR":
            t: Tuple[Any, ...] = ("TEXT", "TRUSTED", ())
        else:
            t = ("TEXT", "PLAIN", () if noesc else ("text",))
        return _merge(open_ + [("LIT", ">"), t] + close)
    kids = ("CHILDREN", ("indent", 1), ("var", "eol"), ("const", add_ws), ("const", not noesc))
    if add_ws:
        return _merge(open_ + [("LIT", ">"), ("EOL",), kids, ("EOL",), ("INDENT", 0)] + close)
    return _merge(open_ + [("LIT", ">"), kids] + close)


def _merge(tokens: List[Tuple[Any, ...]]) -> List[Tuple[Any, ...]]:
    out: List[Tuple[Any, ...]] = []
    for t in tokens:
        if t[0] == "LIT" and out and out[-1][0] == "LIT":
            out[-1] = ("LIT", out[-1][1] + t[1])
        else:
            out.append(t)
    return out


# ---------------------------------------------------------------------------------------
# frame scenarios
# ---------------------------------------------------------------------------------------

class FrameScenario:
    def __init__(self, n_vis: int, n_meta: int, name: str, add_ws: bool, single_kind: Optional[str], first_is_meta: Optional[bool]):
        self.n_vis = n_vis
        self.n_meta = n_meta
        self.name = name          # a concrete representative name, or '<other>'
        self.add_ws = add_ws
        self.single_kind = single_kind
        self.first_is_meta = first_is_meta

    def __repr__(self) -> str:
        return (f"n_vis={'>=2' if self.n_vis == 2 else self.n_vis} n_meta={'>=2' if self.n_meta == 2 else self.n_meta} "
                f"name={self.name} add_ws={self.add_ws}" + (f" child={self.single_kind}" if self.single_kind else ""))


def frame_leaf_matches(m: Model, leaf: Leaf, sc: FrameScenario) -> Tuple[bool, List[Any]]:
    """Is the scenario consistent with the leaf's assumptions?  Returns (match, free atoms)."""
    free: List[Any] = []
    run = leaf.run
    vis = frozenset(VISIBLE_KINDS)
    meta = frozenset(META_KINDS)
    objs = {o.uid: o for o in run.elem_memo.values() if isinstance(o, SObj)}
    for atom, val in leaf.atoms:
        if not isinstance(atom, tuple):
            free.append((atom, val))
            continue
        tag = atom[0]
        if tag == "count":
            ks = frozenset(atom[2])
            want = int(val.replace("n>=", "").replace("n=", ""))
            if ks == vis:
                if sc.n_vis != want:
                    return False, []
            elif ks == meta:
                if sc.n_meta != want:
                    return False, []
            else:
                free.append((atom, val))
        elif tag == "in" and not _is_name_set_atom(atom):
            free.append((atom, val))
        elif tag == "in":
            names = frozenset(atom[2])
            holds = sc.name in names
            if holds != (not str(val).startswith("not in")):
                return False, []
        elif tag == "eq" and isinstance(atom[2], tuple) and atom[2][0] == "str":
            holds = sc.name == atom[2][1]
            if holds != (not str(val).startswith("!=")):
                return False, []
        elif tag == "attr" and atom[2] == "add_ws" and atom[1] == run.__dict__.get("frame_self_uid", atom[1]):
            # the whitespace flag of the element itself (the flag of some other tag, e.g. of a child, is a free condition)
            if sc.add_ws is not val:
                return False, []
        elif tag == "first-is-meta":
            if sc.first_is_meta is None:
                free.append((atom, val))
            elif sc.first_is_meta != (val == "first element is metadata"):
                return False, []
        elif tag in ("isinstance", "kind", "kindgroup", "is", "truthy-kind"):
            o = objs.get(atom[1])
            if o is None or o.elem_of is None:
                free.append((atom, val))
                continue
            ek = frozenset(o.elem_of[1])
            if ek <= meta:
                continue                      # a metadata element: its kind is not part of the scenario
            if ek == vis and o.elem_of[2] == 0 and sc.n_vis == 1:
                if sc.single_kind not in o.kinds:
                    return False, []
                continue
            free.append((atom, val))
        else:
            free.append((atom, val))
    return True, free


def _is_name_set_atom(atom: Any) -> bool:
    return (isinstance(atom, tuple) and len(atom) == 3 and atom[0] == "in" and isinstance(atom[1], int)
            and isinstance(atom[2], tuple) and all(isinstance(x, str) for x in atom[2]))


def frame_name_classes(m: Model) -> List[str]:
    names = set(m.void) | set(m.noesc)
    for leaf in m.frame_leaves:
        for atom, val in leaf.atoms:
            if _is_name_set_atom(atom):
                names |= set(atom[2])
            if isinstance(atom, tuple) and atom[0] == "eq" and isinstance(atom[2], tuple) and atom[2][0] == "str":
                names.add(atom[2][1])
    return sorted(names) + ["<other>"]


def frame_scenarios(m: Model) -> List[FrameScenario]:
    out: List[FrameScenario] = []
    for name in frame_name_classes(m):
        for add_ws in (True, False):
            for n_meta in (0, 1, 2):
                fim_opts: List[Optional[bool]] = [None] if n_meta == 0 else [True, False]
                for fim in fim_opts:
                    out.append(FrameScenario(0, n_meta, name, add_ws, None, fim if n_meta else None) if True else None)  # type: ignore[arg-type]
                    for k in VISIBLE_KINDS:
                        out.append(FrameScenario(1, n_meta, name, add_ws, k, fim))
                    out.append(FrameScenario(2, n_meta, name, add_ws, None, fim))
    # n_vis = 0 and first_is_meta False is impossible when metadata is present
    return [s for s in out if not (s.n_vis == 0 and s.n_meta > 0 and s.first_is_meta is False)]
