"""Front end: loader, symbols, constant folder, class hierarchy (DESIGN 3.1)."""

from __future__ import annotations

import ast
import os
import sys
from typing import Any, Dict, Iterable, List, Optional, Tuple


class AnalysisError(Exception):
    """Cannot decide: anchor vanished / construct unmodelled (exit 2, never a violation)."""


_STRM = (str,)
_SETM = (set, frozenset)
_PURE_METHODS = {"split": _STRM, "rsplit": _STRM, "splitlines": _STRM, "lower": _STRM, "upper": _STRM, "strip": _STRM, "lstrip": _STRM, "rstrip": _STRM,
                 "replace": _STRM, "format": _STRM, "union": _SETM, "difference": _SETM, "intersection": _SETM, "copy": (set, frozenset, dict, list)}


class NotConst(Exception):
    pass


REPO = os.environ.get("SA_REPO", "/repo")

PKG_FILES = [
    "htmltools/__init__.py",
    "htmltools/_core.py",
    "htmltools/_util.py",
    "htmltools/_jsx.py",
    "htmltools/_versions.py",
    "htmltools/tags.py",
    "htmltools/svg.py",
    "scripts/generate_tags.py",
]


def _modname(rel: str) -> str:
    m = rel[:-3].replace("/", ".")
    if m.endswith(".__init__"):
        m = m[: -len(".__init__")]
    return m


class ClassInfo:
    def __init__(self, module: "Module", node: ast.ClassDef):
        self.module = module
        self.node = node
        self.name = node.name
        self.base_exprs = node.bases
        self.methods: Dict[str, ast.FunctionDef] = {}
        self.annotations: Dict[str, ast.expr] = {}
        self.aliases: Dict[str, str] = {}
        self.class_consts: Dict[str, ast.expr] = {}
        self.decorators = [ast.unparse(d) for d in node.decorator_list]
        for st in node.body:
            if isinstance(st, (ast.FunctionDef, ast.AsyncFunctionDef)):
                # keep the last definition that is not an @overload stub
                decos = [ast.unparse(d) for d in st.decorator_list]
                if "overload" in decos:
                    continue
                self.methods[st.name] = st  # type: ignore[assignment]
            elif isinstance(st, ast.AnnAssign) and isinstance(st.target, ast.Name):
                self.annotations[st.target.id] = st.annotation
                if st.value is not None:
                    self.class_consts[st.target.id] = st.value
            elif isinstance(st, ast.Assign):
                for t in st.targets:
                    if isinstance(t, ast.Name):
                        if isinstance(st.value, ast.Name):
                            self.aliases[t.id] = st.value.id
                        self.class_consts[t.id] = st.value

    @property
    def qualname(self) -> str:
        return f"{self.module.name}:{self.name}"

    def is_protocol(self) -> bool:
        return any(ast.unparse(b).split(".")[-1] == "Protocol" for b in self.base_exprs)

    def is_runtime_checkable(self) -> bool:
        return any(d.split(".")[-1] == "runtime_checkable" for d in self.decorators)

    def __repr__(self) -> str:
        return f"<class {self.qualname}>"


class _DesugarEnumerate(ast.NodeTransformer):
    """`for i, x in enumerate(seq[, start]): BODY` where `i` is only ever *compared* in BODY becomes

        __enum_i = start; for x in seq: i = __enum_i; __enum_i += 1; BODY

    (same meaning, also across `continue`), so that the index is an ordinary loop-carried counter.  Loops that use the
    index as a subscript keep the enumerate form, which Engine A models as "slot of the element"."""

    def visit_FunctionDef(self, node: ast.FunctionDef) -> Any:
        self.generic_visit(node)
        node.body = self._block(node.body)
        return node

    visit_AsyncFunctionDef = visit_FunctionDef  # type: ignore[assignment]

    def _block(self, body: List[ast.stmt]) -> List[ast.stmt]:
        out: List[ast.stmt] = []
        for st in body:
            for fld in ("body", "orelse", "finalbody"):
                sub = getattr(st, fld, None)
                if isinstance(sub, list) and sub and isinstance(sub[0], ast.stmt) and not isinstance(st, (ast.FunctionDef, ast.AsyncFunctionDef, ast.ClassDef)):
                    setattr(st, fld, self._block(sub))
            for h in getattr(st, "handlers", []) or []:
                h.body = self._block(h.body)
            rep = self._rewrite(st) if isinstance(st, ast.For) else None
            out.extend(rep if rep else [st])
        return out

    @staticmethod
    def _only_compared(body: List[ast.stmt], name: str) -> bool:
        parents: Dict[int, ast.AST] = {}
        for st in body:
            for n in ast.walk(st):
                for c in ast.iter_child_nodes(n):
                    parents[id(c)] = n
        used = False
        for st in body:
            for n in ast.walk(st):
                if isinstance(n, ast.Name) and n.id == name:
                    if not isinstance(n.ctx, ast.Load):
                        return False
                    used = True
                    par = parents.get(id(n))
                    if not (isinstance(par, ast.Compare) and all(isinstance(o, (ast.Gt, ast.GtE, ast.Lt, ast.LtE, ast.Eq, ast.NotEq)) for o in par.ops)
                            and all(isinstance(x, ast.Constant) or x is n for x in [par.left] + par.comparators)):
                        return False
                if isinstance(n, (ast.FunctionDef, ast.Lambda)) :
                    return False
        return used

    def _rewrite(self, st: ast.For) -> Optional[List[ast.stmt]]:
        it, tg = st.iter, st.target
        if not (isinstance(it, ast.Call) and isinstance(it.func, ast.Name) and it.func.id == "enumerate" and 1 <= len(it.args) <= 2 and not it.keywords
                and isinstance(tg, ast.Tuple) and len(tg.elts) == 2 and isinstance(tg.elts[0], ast.Name)):
            return None
        idx = tg.elts[0].id
        if st.orelse or not self._only_compared(st.body, idx):
            return None
        start = it.args[1] if len(it.args) == 2 else ast.Constant(0)
        hidden = f"__enum_{idx}"
        pre = ast.Assign([ast.Name(hidden, ast.Store())], start)
        a1 = ast.Assign([ast.Name(idx, ast.Store())], ast.Name(hidden, ast.Load()))
        a2 = ast.AugAssign(ast.Name(hidden, ast.Store()), ast.Add(), ast.Constant(1))
        new = ast.For(tg.elts[1], it.args[0], [a1, a2] + st.body, [], None)
        for n in (pre, new):
            ast.copy_location(n, st)
            ast.fix_missing_locations(n)
        return [pre, new]


class _DesugarQuantifiers:
    """`return [P and ...] all(E for T in X)` / `any(...)` / `not any(...)` / `not all(...)` at the end of a boolean function
    becomes the explicit loop with early return (same meaning when every P is boolean-valued: isinstance(), a comparison, `not`)."""

    def run(self, tree: ast.AST) -> ast.AST:
        for n in ast.walk(tree):
            for fld in ("body", "orelse", "finalbody"):
                b = getattr(n, fld, None)
                if isinstance(b, list) and b and isinstance(b[0], ast.stmt):
                    setattr(n, fld, self._block(b))
            for h in getattr(n, "handlers", []) or []:
                h.body = self._block(h.body)
        return tree

    def _block(self, body: List[ast.stmt]) -> List[ast.stmt]:
        out: List[ast.stmt] = []
        for st in body:
            rep = self._rewrite(st) if isinstance(st, ast.Return) and st.value is not None else None
            out.extend(rep if rep else [st])
        return out

    @staticmethod
    def _boolish(e: ast.expr) -> bool:
        if isinstance(e, ast.Compare):
            return True
        if isinstance(e, ast.UnaryOp) and isinstance(e.op, ast.Not):
            return True
        return isinstance(e, ast.Call) and isinstance(e.func, ast.Name) and e.func.id in ("isinstance", "issubclass", "callable", "hasattr", "bool")

    @staticmethod
    def _quant(e: ast.expr) -> Optional[Tuple[str, bool, ast.comprehension, ast.expr]]:
        neg = False
        if isinstance(e, ast.UnaryOp) and isinstance(e.op, ast.Not):
            neg, e = True, e.operand
        if isinstance(e, ast.Call) and isinstance(e.func, ast.Name) and e.func.id in ("all", "any") and len(e.args) == 1 and not e.keywords \
                and isinstance(e.args[0], (ast.GeneratorExp, ast.ListComp)) and len(e.args[0].generators) == 1 \
                and not e.args[0].generators[0].is_async:
            return (e.func.id, neg, e.args[0].generators[0], e.args[0].elt)
        return None

    def _rewrite(self, st: ast.Return) -> Optional[List[ast.stmt]]:
        v = st.value
        pre: List[ast.expr] = []
        if isinstance(v, ast.BoolOp) and isinstance(v.op, ast.And) and len(v.values) >= 2 and all(self._boolish(x) for x in v.values[:-1]):
            pre, v = list(v.values[:-1]), v.values[-1]
        q = self._quant(v)          # type: ignore[arg-type]
        if q is None:
            return None
        kind, neg, gen, elt = q
        # all: a falsy element decides (False); any: a truthy element decides (True); `not` flips both results
        decide_on_truthy = kind == "any"
        early = (kind == "any") != neg
        test: ast.expr = elt if decide_on_truthy else ast.UnaryOp(ast.Not(), elt)
        for c in reversed(gen.ifs):
            test = ast.BoolOp(ast.And(), [c, test])
        loop = ast.For(gen.target, gen.iter, [ast.If(test, [ast.Return(ast.Constant(early))], [])], [], None)
        out: List[ast.stmt] = [ast.If(ast.UnaryOp(ast.Not(), p), [ast.Return(ast.Constant(False))], []) for p in pre]
        out += [loop, ast.Return(ast.Constant(not early))]
        for n in out:
            ast.copy_location(n, st)
            ast.fix_missing_locations(n)
        return out


class _LoopAppendToExtend:
    """`L = []` ... `for T in IT: [if C:] L.append(E)` at the top level of a function body, where L is a fresh local list that
    nothing but `L.append/extend(...)` statements has touched so far and neither IT, C nor E mention L, becomes
    `L.extend([E for T in IT if C])` (same list, same order; the list cannot be observed half-filled)."""

    def run(self, tree: ast.AST) -> ast.AST:
        for fn in ast.walk(tree):
            if isinstance(fn, (ast.FunctionDef, ast.AsyncFunctionDef)):
                fn.body = self._block(fn.body)
        return tree

    @staticmethod
    def _mentions(n: ast.AST, name: str) -> bool:
        return any(isinstance(x, ast.Name) and x.id == name for x in ast.walk(n))

    @classmethod
    def _only_adds(cls, st: ast.stmt, name: str) -> bool:
        if not cls._mentions(st, name):
            return True
        if isinstance(st, ast.Expr) and isinstance(st.value, ast.Call) and isinstance(st.value.func, ast.Attribute) \
                and isinstance(st.value.func.value, ast.Name) and st.value.func.value.id == name and st.value.func.attr in ("append", "extend") \
                and not any(cls._mentions(a, name) for a in st.value.args) and not st.value.keywords:
            return True
        if isinstance(st, ast.If) and not cls._mentions(st.test, name):
            return all(cls._only_adds(x, name) for x in st.body + st.orelse)
        return False

    def _block(self, body: List[ast.stmt]) -> List[ast.stmt]:
        fresh: Dict[str, Any] = {}
        out: List[ast.stmt] = []
        for st in body:
            tgt = st.targets[0] if isinstance(st, ast.Assign) and len(st.targets) == 1 else st.target if isinstance(st, ast.AnnAssign) else None
            val = getattr(st, "value", None)
            if isinstance(tgt, ast.Name) and (isinstance(val, ast.List) and not val.elts
                                              or isinstance(val, ast.Call) and isinstance(val.func, ast.Name) and val.func.id == "list" and not val.args and not val.keywords):
                fresh[tgt.id] = st
                out.append(st)
                continue
            rep = self._rewrite(st, fresh) if isinstance(st, ast.For) else None
            if rep is not None:
                prev = out[-1] if out else None
                nm_ = rep.value.func.value.id          # type: ignore[attr-defined]
                ptg = (prev.targets[0] if isinstance(prev, ast.Assign) and len(prev.targets) == 1 else prev.target if isinstance(prev, ast.AnnAssign) else None)
                if isinstance(ptg, ast.Name) and ptg.id == nm_ and fresh.get(nm_) is prev:
                    # `L = []` directly followed by the loop: L = [E for T in IT if C]
                    prev.value = rep.value.args[0]     # type: ignore[attr-defined]
                    fresh[nm_] = True
                    continue
                out.append(rep)
                continue
            for nm in list(fresh):
                if not self._only_adds(st, nm):
                    del fresh[nm]
            out.append(st)
        return out

    def _rewrite(self, st: ast.For, fresh: Dict[str, Any]) -> Optional[ast.stmt]:
        if st.orelse or not st.body:
            return None
        # leading `if G: continue` guards, then the (possibly conditional) append
        conds: List[ast.expr] = []
        body = list(st.body)
        while len(body) > 1 and isinstance(body[0], ast.If) and not body[0].orelse and len(body[0].body) == 1 and isinstance(body[0].body[0], ast.Continue):
            conds.append(ast.UnaryOp(ast.Not(), body[0].test))
            body = body[1:]
        if len(body) != 1:
            return None
        inner = body[0]
        if isinstance(inner, ast.If) and not inner.orelse and len(inner.body) == 1:
            conds.append(inner.test)
            inner = inner.body[0]
        cond: Optional[ast.expr] = None
        if conds:
            cond = conds[0] if len(conds) == 1 else ast.BoolOp(ast.And(), conds)
        if not (isinstance(inner, ast.Expr) and isinstance(inner.value, ast.Call) and isinstance(inner.value.func, ast.Attribute)
                and inner.value.func.attr == "append" and isinstance(inner.value.func.value, ast.Name) and len(inner.value.args) == 1 and not inner.value.keywords):
            return None
        name = inner.value.func.value.id
        elt = inner.value.args[0]
        if name not in fresh or any(self._mentions(x, name) for x in (st.iter, st.target, elt) + ((cond,) if cond is not None else ())):
            return None
        if any(isinstance(x, (ast.Yield, ast.YieldFrom, ast.Await, ast.NamedExpr, ast.Lambda)) for y in (elt, cond, st.iter) if y is not None for x in ast.walk(y)):
            return None
        comp = ast.ListComp(elt, [ast.comprehension(st.target, st.iter, [cond] if cond is not None else [], 0)])
        new = ast.Expr(ast.Call(ast.Attribute(ast.Name(name, ast.Load()), "extend", ast.Load()), [comp], []))
        ast.copy_location(new, st)
        ast.fix_missing_locations(new)
        return new


class _SplitTupleAssign(ast.NodeTransformer):
    """`t1, t2 = e1, e2` (same length, no stars) -> the values are taken first, then stored left to right, which is what Python
    does; when the values are plain names/constants/attribute reads that no target can change, simply `t1 = e1; t2 = e2`."""

    def __init__(self) -> None:
        self._n = 0

    def visit_Assign(self, node: ast.Assign) -> Any:
        if not (len(node.targets) == 1 and isinstance(node.targets[0], (ast.Tuple, ast.List)) and isinstance(node.value, (ast.Tuple, ast.List))
                and len(node.targets[0].elts) == len(node.value.elts) and len(node.value.elts) >= 2
                and not any(isinstance(x, ast.Starred) for x in node.targets[0].elts + node.value.elts)):
            return node
        tg, vs = node.targets[0].elts, node.value.elts

        def atom(e: ast.expr) -> bool:
            while isinstance(e, ast.Attribute):
                e = e.value
            return isinstance(e, (ast.Name, ast.Constant))

        tnames = [ast.unparse(t) for t in tg]
        vnames = [ast.unparse(v) for v in vs]
        hazard = any(v == t or v.startswith(t + ".") or v.startswith(t + "[") or t.startswith(v + ".") for v in vnames for t in tnames if not v[:1].isdigit() and not v[:1] in "'\"")
        out: List[ast.stmt] = []
        if all(atom(v) for v in vs) and not hazard:
            for t, v in zip(tg, vs):
                out.append(ast.copy_location(ast.Assign([t], v), node))
        else:
            tmps = []
            for v in vs:
                self._n += 1
                nm = f"__tup{self._n}"
                tmps.append(nm)
                out.append(ast.copy_location(ast.Assign([ast.Name(nm, ast.Store())], v), node))
            for t, nm in zip(tg, tmps):
                out.append(ast.copy_location(ast.Assign([t], ast.Name(nm, ast.Load())), node))
        for o in out:
            ast.fix_missing_locations(o)
        return out


class _InlineGenExpLoops:
    """`G = (E for T in IT if C..)` ... `for X in G: BODY` in one block, G a local name bound once and used only as that loop's
    iterable, IT a plain name/attribute that nothing in between rebinds:

        for __g_T in IT:  if not C: continue;  X = E;  BODY

    (a generator expression evaluates its outermost iterable when it is created and everything else lazily, element by element,
    which is what the loop does; the generator's own variable is renamed so that it cannot clash)."""

    def run(self, tree: ast.AST) -> ast.AST:
        for fn in ast.walk(tree):
            if isinstance(fn, (ast.FunctionDef, ast.AsyncFunctionDef)):
                self._fn = fn
                fn.body = self._block(fn.body)
        return tree

    def _block(self, body: List[ast.stmt]) -> List[ast.stmt]:
        out: List[ast.stmt] = []
        for idx, st in enumerate(body):
            for fld in ("body", "orelse", "finalbody"):
                sub = getattr(st, fld, None)
                if isinstance(sub, list) and sub and isinstance(sub[0], ast.stmt) and not isinstance(st, (ast.FunctionDef, ast.AsyncFunctionDef, ast.ClassDef)):
                    setattr(st, fld, self._block(sub))
            rep = self._rewrite(out, st) if isinstance(st, ast.For) and isinstance(st.iter, ast.Name) else None
            if rep is not None:
                out[:] = rep
                continue
            out.append(st)
        return out

    def _rewrite(self, before: List[ast.stmt], loop: ast.For) -> Optional[List[ast.stmt]]:
        g = loop.iter.id        # type: ignore[attr-defined]
        if loop.orelse:
            return None
        # the one binding of g in the whole function, in this block, a generator expression with one clause
        binds = [n for n in ast.walk(self._fn) if isinstance(n, (ast.Assign, ast.AnnAssign, ast.AugAssign, ast.NamedExpr, ast.For, ast.comprehension, ast.With))
                 and any(isinstance(x, ast.Name) and x.id == g and isinstance(x.ctx, ast.Store) for x in ast.walk(n) if not isinstance(x, (ast.FunctionDef, ast.Lambda)))]
        defs = [i for i, b in enumerate(before) if isinstance(b, (ast.Assign, ast.AnnAssign)) and isinstance(getattr(b, "value", None), ast.GeneratorExp)
                and [t.id for t in (b.targets if isinstance(b, ast.Assign) else [b.target]) if isinstance(t, ast.Name)] == [g]]
        if len(defs) != 1:
            return None
        d = before[defs[0]]
        if len([n for n in binds if n is d or any(x is d for x in ast.walk(n))]) != len(binds) or len(binds) != 1:
            return None
        uses = [n for n in ast.walk(self._fn) if isinstance(n, ast.Name) and n.id == g and isinstance(n.ctx, ast.Load)]
        if len(uses) != 1 or uses[0] is not loop.iter:
            return None
        ge = d.value           # type: ignore[union-attr]
        if len(ge.generators) != 1 or ge.generators[0].is_async:
            return None
        gen = ge.generators[0]
        it = gen.iter
        chain = it
        while isinstance(chain, ast.Attribute):
            chain = chain.value
        if not isinstance(chain, ast.Name):
            return None
        used = {n.id for n in ast.walk(it) if isinstance(n, ast.Name)}
        between = before[defs[0] + 1:]
        for b in between:
            for n in ast.walk(b):
                if isinstance(n, ast.Name) and n.id in used and isinstance(n.ctx, (ast.Store, ast.Del)):
                    return None
                if isinstance(n, (ast.Yield, ast.YieldFrom, ast.Await)):
                    return None
        if any(isinstance(n, (ast.Yield, ast.YieldFrom, ast.Await, ast.NamedExpr, ast.Lambda)) for x in [ge.elt] + gen.ifs for n in ast.walk(x)):
            return None
        import copy as _c
        tnames = [n.id for n in ast.walk(gen.target) if isinstance(n, ast.Name)]
        mapping = {t: ast.Name(f"__g_{g}_{t}", ast.Load()) for t in tnames}
        rn = _Rename(mapping)
        target = rn.visit(_c.deepcopy(gen.target))
        guards: List[ast.stmt] = [ast.If(ast.UnaryOp(ast.Not(), rn.visit(_c.deepcopy(c))), [ast.Continue()], []) for c in gen.ifs]
        bind = ast.Assign([_c.deepcopy(loop.target)], rn.visit(_c.deepcopy(ge.elt)))
        for n in ast.walk(bind.targets[0]):
            if isinstance(n, (ast.Name, ast.Tuple, ast.List, ast.Starred)):
                n.ctx = ast.Store()
        new = ast.For(target, _c.deepcopy(it), guards + [bind] + loop.body, [], None)
        for n in ast.walk(target):
            if isinstance(n, (ast.Name, ast.Tuple, ast.List)):
                n.ctx = ast.Store()
        ast.copy_location(new, loop)
        ast.fix_missing_locations(new)
        new._sa_genexp_inlined = norm(ge)        # type: ignore[attr-defined]
        return before[:defs[0]] + between + [new]


class _FinditerToFindallSub:
    """The one-pass spelling of "collect group 1 of every match and delete the matches":

        A = []; K = []; P = 0
        for M in RX.finditer(S):  K.append(S[P:M.start()]);  A.append(M.group(1));  P = M.end()
        K.append(S[P:]);  T = "".join(K)

    is `A = RX.findall(S); T = RX.sub("", S)` for a pattern with one group (K, P and M are used for nothing else)."""

    def run(self, tree: ast.AST) -> ast.AST:
        for fn in ast.walk(tree):
            if isinstance(fn, (ast.FunctionDef, ast.AsyncFunctionDef)):
                new = self._block(fn, fn.body)
                if new is not None:
                    fn.body = new
        return tree

    @staticmethod
    def _is_empty_list(st: ast.stmt, name: Optional[str] = None) -> Optional[str]:
        tgt = st.targets[0] if isinstance(st, ast.Assign) and len(st.targets) == 1 else st.target if isinstance(st, ast.AnnAssign) else None
        val = getattr(st, "value", None)
        if isinstance(tgt, ast.Name) and isinstance(val, ast.List) and not val.elts:
            return tgt.id
        return None

    def _callback_form(self, fn: ast.AST, body: List[ast.stmt]) -> Optional[List[ast.stmt]]:
        """A = []; def cb(m): A.append(m.group(1)); return ""; T = RX.sub(cb, S)   ->   A = RX.findall(S); T = RX.sub("", S)"""
        for ci, cb in enumerate(body):
            if not (isinstance(cb, ast.FunctionDef) and not cb.decorator_list and len(cb.args.args) == 1 and not cb.args.vararg and not cb.args.kwarg
                    and not cb.args.kwonlyargs and len(cb.body) == 2):
                continue
            m = cb.args.args[0].arg
            b0, b1 = cb.body
            if not (isinstance(b0, ast.Expr) and isinstance(b0.value, ast.Call) and isinstance(b0.value.func, ast.Attribute) and b0.value.func.attr == "append"
                    and isinstance(b0.value.func.value, ast.Name) and len(b0.value.args) == 1 and ast.unparse(b0.value.args[0]) == f"{m}.group(1)"
                    and isinstance(b1, ast.Return) and isinstance(b1.value, ast.Constant) and b1.value.value == ""):
                continue
            A = b0.value.func.value.id
            inits = [j for j, st in enumerate(body[:ci]) if self._is_empty_list(st) == A]
            if len(inits) != 1:
                continue
            if any(isinstance(n, ast.Name) and n.id == A for st in body[inits[0] + 1:ci] for n in ast.walk(st)):
                continue
            # the one use of cb: T = RX.sub(cb, S) / re.sub(PAT, cb, S), the next statement that mentions A or cb
            use_at = None
            for j in range(ci + 1, len(body)):
                st = body[j]
                names = {n.id for n in ast.walk(st) if isinstance(n, ast.Name)}
                if cb.name in names:
                    use_at = j
                    break
                if A in names:
                    break
            if use_at is None:
                continue
            st = body[use_at]
            call = getattr(st, "value", None)
            if not (isinstance(st, (ast.Assign, ast.AnnAssign)) and isinstance(call, ast.Call) and isinstance(call.func, ast.Attribute) and call.func.attr == "sub"
                    and not call.keywords):
                continue
            if isinstance(call.func.value, ast.Name) and call.func.value.id == "re" and len(call.args) == 3:
                rx, cbarg, src, via_re = call.args[0], call.args[1], call.args[2], True
            elif len(call.args) == 2:
                rx, cbarg, src, via_re = call.func.value, call.args[0], call.args[1], False
            else:
                continue
            if not (isinstance(cbarg, ast.Name) and cbarg.id == cb.name and isinstance(src, ast.Name)):
                continue
            if len([n for n in ast.walk(fn) if isinstance(n, ast.Name) and n.id == cb.name]) != 1:
                continue
            import copy as _c
            S = src.id
            if via_re:
                fa: ast.expr = ast.Call(ast.Attribute(ast.Name("re", ast.Load()), "findall", ast.Load()), [_c.deepcopy(rx), ast.Name(S, ast.Load())], [])
            else:
                fa = ast.Call(ast.Attribute(_c.deepcopy(rx), "findall", ast.Load()), [ast.Name(S, ast.Load())], [])
            call.args[1 if via_re else 0] = ast.Constant("")
            na = ast.Assign([ast.Name(A, ast.Store())], fa)
            ast.copy_location(na, cb)
            ast.fix_missing_locations(na)
            ast.fix_missing_locations(st)
            out = [x for j, x in enumerate(body) if j not in (inits[0], ci)]
            out.insert(out.index(st), na)
            return out
        return None

    def _block(self, fn: ast.AST, body: List[ast.stmt]) -> Optional[List[ast.stmt]]:
        cbf = self._callback_form(fn, body)
        if cbf is not None:
            return cbf
        for li, lp in enumerate(body):
            if not (isinstance(lp, ast.For) and not lp.orelse and isinstance(lp.target, ast.Name) and isinstance(lp.iter, ast.Call)
                    and isinstance(lp.iter.func, ast.Attribute) and lp.iter.func.attr == "finditer" and not lp.iter.keywords and len(lp.body) == 3):
                continue
            m = lp.target.id
            call = lp.iter
            if isinstance(call.func.value, ast.Name) and call.func.value.id == "re" and len(call.args) == 2:
                rx, src, via_re = call.args[0], call.args[1], True
            elif len(call.args) == 1:
                rx, src, via_re = call.func.value, call.args[0], False
            else:
                continue
            if not isinstance(src, ast.Name):
                continue
            S = src.id
            A = K = P = None
            k_idx = p_idx = None
            ok = True
            for i, st in enumerate(lp.body):
                if isinstance(st, ast.Expr) and isinstance(st.value, ast.Call) and isinstance(st.value.func, ast.Attribute) and st.value.func.attr == "append" \
                        and isinstance(st.value.func.value, ast.Name) and len(st.value.args) == 1 and not st.value.keywords:
                    a0 = st.value.args[0]
                    if ast.unparse(a0) == f"{m}.group(1)":
                        A = st.value.func.value.id
                    elif isinstance(a0, ast.Subscript) and isinstance(a0.value, ast.Name) and a0.value.id == S and isinstance(a0.slice, ast.Slice) \
                            and isinstance(a0.slice.lower, ast.Name) and a0.slice.step is None and a0.slice.upper is not None and ast.unparse(a0.slice.upper) == f"{m}.start()":
                        K, P, k_idx = st.value.func.value.id, a0.slice.lower.id, i
                    else:
                        ok = False
                elif isinstance(st, ast.Assign) and len(st.targets) == 1 and isinstance(st.targets[0], ast.Name) and ast.unparse(st.value) == f"{m}.end()":
                    p_name, p_idx = st.targets[0].id, i
                else:
                    ok = False
            if not ok or A is None or K is None or p_idx is None or k_idx is None or p_name != P or p_idx < k_idx or len({A, K, P, S, m}) != 5:
                continue
            # before the loop: A = [], K = [], P = 0 (each bound once before, untouched in between)
            init: Dict[str, int] = {}
            for j, st in enumerate(body[:li]):
                nm = self._is_empty_list(st)
                if nm in (A, K):
                    init[nm] = j
                if isinstance(st, ast.Assign) and len(st.targets) == 1 and isinstance(st.targets[0], ast.Name) and st.targets[0].id == P \
                        and isinstance(st.value, ast.Constant) and st.value.value == 0 and not isinstance(st.value.value, bool):
                    init[P] = j
            if set(init) != {A, K, P}:
                continue
            touched = False
            for j, st in enumerate(body[:li]):
                if j in init.values():
                    continue
                if any(isinstance(n, ast.Name) and n.id in (A, K, P) for n in ast.walk(st)):
                    touched = True
            # after the loop: K.append(S[P:]) then T = "".join(K); K, P, M used nowhere else
            if touched or li + 1 >= len(body) or ast.unparse(body[li + 1]) != f"{K}.append({S}[{P}:])":
                continue
            join_at = None
            for j in range(li + 2, len(body)):
                st = body[j]
                if isinstance(st, (ast.Assign, ast.AnnAssign)) and getattr(st, "value", None) is not None and ast.unparse(st.value) in (f"''.join({K})", f'"".join({K})'):
                    join_at = j
                    break
                if any(isinstance(n, ast.Name) and n.id in (K, P, S) for n in ast.walk(st)):
                    break
            if join_at is None:
                continue
            uses = [n for n in ast.walk(fn) if isinstance(n, ast.Name) and n.id in (K, P, m)]
            mine = [n for st in [body[init[K]], body[init[P]], lp, body[li + 1], body[join_at]] for n in ast.walk(st) if isinstance(n, ast.Name) and n.id in (K, P, m)]
            if len(uses) != len(mine):
                continue
            import copy as _c
            if via_re:
                fa: ast.expr = ast.Call(ast.Attribute(ast.Name("re", ast.Load()), "findall", ast.Load()), [_c.deepcopy(rx), ast.Name(S, ast.Load())], [])
                sb: ast.expr = ast.Call(ast.Attribute(ast.Name("re", ast.Load()), "sub", ast.Load()), [_c.deepcopy(rx), ast.Constant(""), ast.Name(S, ast.Load())], [])
            else:
                fa = ast.Call(ast.Attribute(_c.deepcopy(rx), "findall", ast.Load()), [ast.Name(S, ast.Load())], [])
                sb = ast.Call(ast.Attribute(_c.deepcopy(rx), "sub", ast.Load()), [ast.Constant(""), ast.Name(S, ast.Load())], [])
            out: List[ast.stmt] = []
            for j, st in enumerate(body):
                if j in (init[K], init[P], li + 1):
                    continue
                if j == init[A]:
                    continue
                if j == li:
                    na = ast.Assign([ast.Name(A, ast.Store())], fa)
                    ast.copy_location(na, lp)
                    ast.fix_missing_locations(na)
                    out.append(na)
                    continue
                if j == join_at:
                    st.value = sb        # type: ignore[union-attr]
                    ast.fix_missing_locations(st)
                out.append(st)
            return out
        return None


class _Rename(ast.NodeTransformer):
    def __init__(self, mapping: Dict[str, ast.expr]):
        self.mapping = mapping

    def visit_Name(self, node: ast.Name) -> Any:
        m = self.mapping.get(node.id)
        if m is None:
            return node
        if isinstance(m, ast.Name):
            return ast.copy_location(ast.Name(m.id, node.ctx), node)
        import copy as _c
        return ast.copy_location(_c.deepcopy(m), node)


def _simple_stmt(st: ast.stmt) -> bool:
    """A statement that may precede the yield inside an inlinable generator: plain assignments / expression statements and
    `if c: continue` guards (no yields, no control flow other than that)."""
    if any(isinstance(n, (ast.Yield, ast.YieldFrom, ast.Return, ast.Break, ast.Raise)) for n in ast.walk(st)):
        return False
    if isinstance(st, (ast.Assign, ast.AnnAssign, ast.AugAssign, ast.Expr)):
        return True
    if isinstance(st, ast.If) and not st.orelse and len(st.body) == 1 and isinstance(st.body[0], ast.Continue):
        return True
    # if c: <assignments> else: <assignments>   (choosing a value; no control flow leaves the statement)
    if isinstance(st, ast.If) and not any(isinstance(n, (ast.Continue, ast.For, ast.While, ast.Try, ast.With)) for n in ast.walk(st)):
        return all(_simple_stmt(x) for x in st.body + st.orelse)
    return False


def _filter_generator_shape(fn: ast.FunctionDef) -> Optional[List[ast.For]]:
    """`def g(p..): for x in X: <simple>* (for y in Y: ... | yield v | if t: yield v)` -> the loop nest, outermost first.
    The innermost loop's last statement is the only yield of the function."""
    a = fn.args
    if a.vararg or a.kwarg or a.kwonlyargs or a.defaults or a.posonlyargs:
        return None
    if any(ast.unparse(d).split(".")[-1] != "staticmethod" for d in fn.decorator_list):
        return None
    body = body_without_docstring(fn)
    if len(body) != 1 or not isinstance(body[0], ast.For):
        return None
    if sum(isinstance(n, (ast.Yield, ast.YieldFrom)) for n in ast.walk(fn)) != 1:
        return None
    return _loop_nest(body[0])


def _yield_from_as_loop(st: ast.stmt) -> ast.stmt:
    """`yield from X` (as a statement) is `for v in X: yield v`."""
    if isinstance(st, ast.Expr) and isinstance(st.value, ast.YieldFrom):
        lp = ast.For(ast.Name("__yf", ast.Store()), st.value.value, [ast.Expr(ast.Yield(ast.Name("__yf", ast.Load())))], [], None)
        ast.copy_location(lp, st)
        ast.fix_missing_locations(lp)
        return lp
    return st


def _loop_nest(first: ast.stmt) -> Optional[List[ast.For]]:
    nest: List[ast.For] = []
    cur: ast.stmt = _yield_from_as_loop(first)
    while isinstance(cur, ast.For):
        if cur.orelse or not cur.body or not all(_simple_stmt(x) for x in cur.body[:-1]):
            return None
        nest.append(cur)
        cur = _yield_from_as_loop(cur.body[-1])
        if isinstance(cur, ast.For) and cur is not nest[-1].body[-1]:
            # keep the desugared loop reachable as the last statement of a shallow copy of its parent
            import copy as _c
            par = _c.copy(nest[-1])
            par.body = list(par.body[:-1]) + [cur]
            nest[-1] = par
    last = cur
    ok = (isinstance(last, ast.Expr) and isinstance(last.value, ast.Yield) and last.value.value is not None) or \
        (isinstance(last, ast.If) and not last.orelse and len(last.body) == 1 and isinstance(last.body[0], ast.Expr)
         and isinstance(last.body[0].value, ast.Yield) and last.body[0].value.value is not None)
    return nest if ok and 1 <= len(nest) <= 3 else None


def _chained_generator_shape(fn: ast.FunctionDef) -> Optional[List[List[ast.For]]]:
    """A generator whose body is a sequence of loop nests / `yield from X` statements, each with exactly one yield."""
    a = fn.args
    if a.vararg or a.kwarg or a.kwonlyargs or a.defaults or a.posonlyargs:
        return None
    if any(ast.unparse(d).split(".")[-1] != "staticmethod" for d in fn.decorator_list):
        return None
    body = body_without_docstring(fn)
    if not body or len(body) > 4:
        return None
    nests = []
    for st in body:
        st2 = _yield_from_as_loop(st)
        if not isinstance(st2, ast.For):
            return None
        if sum(isinstance(n, (ast.Yield, ast.YieldFrom)) for n in ast.walk(st)) != 1:
            return None
        nst = _loop_nest(st2)
        if nst is None:
            return None
        nests.append(nst)
    return nests


class _InlineFilterGenerators:
    """`for T in g(args): BODY` with g a pure filter/map generator (a loop nest of plain statements and `continue` guards
    around one yield) becomes g's own loop nest with BODY in place of the yield - same iteration order, same laziness; `continue`
    in BODY continues the innermost loop, which is what resuming the generator does.  With more than one loop level BODY must
    not `break` (that would have to leave all levels)."""

    def __init__(self, module: "Module"):
        self.m = module
        self.count = 0

    def lookup(self, call: ast.Call, cls: Optional[str]) -> Optional[Tuple[ast.FunctionDef, Optional[ast.expr]]]:
        f = call.func
        if call.keywords or any(isinstance(x, ast.Starred) for x in call.args):
            return None
        if isinstance(f, ast.Name) and f.id in self.m.functions:
            return (self.m.functions[f.id], None)
        if isinstance(f, ast.Attribute) and isinstance(f.value, ast.Name):
            owner = f.value.id
            ci = self.m.classes.get(cls) if owner in ("self", "cls") and cls else self.m.classes.get(owner)
            if ci is not None and f.attr in ci.methods:
                fn = ci.methods[f.attr]
                static = any(ast.unparse(d).split(".")[-1] == "staticmethod" for d in fn.decorator_list)
                if static:
                    return (fn, None)
                if owner == "self":
                    return (fn, f.value)
        return None

    def run(self) -> None:
        for nm, fn in list(self.m.functions.items()):
            self._function(fn, None)
        for ci in self.m.classes.values():
            for fn in ci.methods.values():
                self._function(fn, ci.name)

    def _function(self, fn: ast.FunctionDef, cls: Optional[str]) -> None:
        for n in ast.walk(fn):
            for fld in ("body", "orelse", "finalbody"):
                b = getattr(n, fld, None)
                if isinstance(b, list) and b and isinstance(b[0], ast.stmt):
                    setattr(n, fld, self._block(b, cls))
        # list(g(a)) / tuple(g(a)) with g a one-loop filter/map generator: the comprehension it spells
        outer = self

        class _Lists(ast.NodeTransformer):
            def visit_FunctionDef(self, node: ast.FunctionDef) -> Any:
                return node if node is not fn else self.generic_visit(node)

            def visit_Call(self, node: ast.Call) -> Any:
                self.generic_visit(node)
                if isinstance(node.func, ast.Name) and node.func.id in ("list", "tuple") and len(node.args) == 1 and not node.keywords \
                        and isinstance(node.args[0], ast.Call):
                    comp = outer._as_comprehension(node.args[0], cls)
                    if comp is not None:
                        new = comp if node.func.id == "list" else ast.Call(ast.Name("tuple", ast.Load()), [comp], [])
                        ast.copy_location(new, node)
                        ast.fix_missing_locations(new)
                        return new
                return node

        _Lists().visit(fn)

    def _as_comprehension(self, call: ast.Call, cls: Optional[str]) -> Optional[ast.ListComp]:
        hit = self.lookup(call, cls)
        if hit is None:
            return None
        g, recv = hit
        nests = _chained_generator_shape(g)
        if nests is None or len(nests) != 1 or len(nests[0]) != 1:
            return None
        lp = nests[0][0]
        guards = lp.body[:-1]
        if not all(isinstance(x, ast.If) and not x.orelse and len(x.body) == 1 and isinstance(x.body[0], ast.Continue) for x in guards):
            return None
        params = [a.arg for a in g.args.args]
        args = list(call.args)
        mapping: Dict[str, ast.expr] = {}
        if recv is not None:
            if not params:
                return None
            mapping[params[0]] = recv
            params = params[1:]
        if len(params) != len(args):
            return None
        # a parameter may be used once only unless the argument is a plain name / attribute chain (no double evaluation)
        for p_, a_ in zip(params, args):
            chain = a_
            while isinstance(chain, ast.Attribute):
                chain = chain.value
            uses = [n for n in ast.walk(g) if isinstance(n, ast.Name) and n.id == p_]
            if not isinstance(chain, ast.Name) and len(uses) > 1:
                return None
            mapping[p_] = a_
        self.count += 1
        tag = f"__g{self.count}_"
        for n in ast.walk(g):
            if isinstance(n, ast.Name) and isinstance(n.ctx, ast.Store) and n.id not in mapping:
                mapping[n.id] = ast.Name(tag + n.id, ast.Load())
        import copy as _c
        rn = _Rename(mapping)
        last = lp.body[-1]
        if isinstance(last, ast.Expr):
            yv, yc = last.value.value, None                  # type: ignore[attr-defined]
        else:
            yv, yc = last.body[0].value.value, last.test       # type: ignore[attr-defined]
        if yv is None:
            return None
        ifs = [ast.UnaryOp(ast.Not(), rn.visit(_c.deepcopy(x.test))) for x in guards]       # type: ignore[attr-defined]
        if yc is not None:
            ifs.append(rn.visit(_c.deepcopy(yc)))
        target = rn.visit(_c.deepcopy(lp.target))
        for n in ast.walk(target):
            if isinstance(n, (ast.Name, ast.Tuple, ast.List)):
                n.ctx = ast.Store()
        return ast.ListComp(rn.visit(_c.deepcopy(yv)), [ast.comprehension(target, rn.visit(_c.deepcopy(lp.iter)), ifs, 0)])

    def _block(self, body: List[ast.stmt], cls: Optional[str]) -> List[ast.stmt]:
        out: List[ast.stmt] = []
        for st in body:
            rep = self._rewrite(st, cls) if isinstance(st, ast.For) and isinstance(st.iter, ast.Call) and not st.orelse else None
            out.extend(rep if rep else [st])
        return out

    def _rewrite(self, st: ast.For, cls: Optional[str]) -> Optional[List[ast.stmt]]:
        hit = self.lookup(st.iter, cls)       # type: ignore[arg-type]
        if hit is None:
            return None
        g, recv = hit
        nests = _chained_generator_shape(g)
        if nests is None:
            return None
        nest = nests[0]
        if len(nests) > 1 or len(nest) > 1 or any(len(x) > 1 for x in nests):
            # a `break` of the consumer's loop (not of a loop nested inside its body) cannot be expressed
            def _breaks(stmts: List[ast.stmt]) -> bool:
                for x in stmts:
                    if isinstance(x, ast.Break):
                        return True
                    if isinstance(x, (ast.For, ast.While, ast.FunctionDef, ast.ClassDef)):
                        continue
                    for fld in ("body", "orelse", "finalbody"):
                        sub = getattr(x, fld, None)
                        if isinstance(sub, list) and sub and isinstance(sub[0], ast.stmt) and _breaks(sub):
                            return True
                    for h in getattr(x, "handlers", []) or []:
                        if _breaks(h.body):
                            return True
                return False
            if _breaks(st.body):
                return None
        params = [a.arg for a in g.args.args]
        args = list(st.iter.args)             # type: ignore[attr-defined]
        if recv is not None:
            if not params:
                return None
            self_param, params = params[0], params[1:]
        else:
            self_param = None
        if len(params) != len(args):
            return None
        self.count += 1
        tag = f"__g{self.count}_"
        mapping: Dict[str, ast.expr] = {}
        pre: List[ast.stmt] = []
        if self_param is not None:
            mapping[self_param] = recv           # type: ignore[assignment]
        for p_, a_ in zip(params, args):
            if isinstance(a_, ast.Name):
                mapping[p_] = a_
            else:
                tmp = ast.Name(tag + p_, ast.Load())
                pre.append(ast.Assign([ast.Name(tag + p_, ast.Store())], a_))
                mapping[p_] = tmp
        # every local of the generator gets a fresh name
        for n in ast.walk(g):
            if isinstance(n, ast.Name) and isinstance(n.ctx, ast.Store) and n.id not in mapping:
                mapping[n.id] = ast.Name(tag + n.id, ast.Load())
        import copy as _c
        rn = _Rename(mapping)

        mapping.setdefault("__yf", ast.Name(tag + "yf", ast.Load()))

        def build(nst: List[ast.For], level: int, body_stmts: List[ast.stmt]) -> ast.For:
            lp = nst[level]
            head = [rn.visit(_c.deepcopy(x)) for x in lp.body[:-1]]
            if level + 1 < len(nst):
                tail: List[ast.stmt] = [build(nst, level + 1, body_stmts)]
            else:
                last = lp.body[-1]
                if isinstance(last, ast.Expr):
                    yv, yc = last.value.value, None                 # type: ignore[attr-defined]
                else:
                    yv, yc = last.body[0].value.value, last.test      # type: ignore[attr-defined]
                inner: List[ast.stmt] = [ast.Assign([_c.deepcopy(st.target)], rn.visit(_c.deepcopy(yv)))] + body_stmts
                tail = [ast.If(rn.visit(_c.deepcopy(yc)), inner, [])] if yc is not None else inner
            return ast.For(rn.visit(_c.deepcopy(lp.target)), rn.visit(_c.deepcopy(lp.iter)), head + tail, [], None)

        news: List[ast.stmt] = []
        for i_, nst in enumerate(nests):
            body_i = list(st.body) if i_ == 0 else [_c.deepcopy(x) for x in st.body]     # one copy of the consumer's body per yield site
            lp_new = build(nst, 0, body_i)
            if i_ > 0:
                lp_new._sa_copy_of = news[0]       # type: ignore[attr-defined]
            news.append(lp_new)
        for n in pre + news:
            ast.copy_location(n, st)
            ast.fix_missing_locations(n)
        return pre + news


class Module:
    def __init__(self, name: str, rel: str, src: str):
        self.name = name
        self.rel = rel
        self.src = src
        try:
            self.tree = ast.parse(src, filename=rel)
        except SyntaxError as e:  # pragma: no cover
            raise AnalysisError(f"{rel} does not parse: {e}")
        self.tree = _SplitTupleAssign().visit(self.tree)
        self.tree = _FinditerToFindallSub().run(self.tree)
        self.tree = _DesugarEnumerate().visit(self.tree)
        self.tree = _InlineGenExpLoops().run(self.tree)
        self.tree = _DesugarQuantifiers().run(self.tree)
        self.tree = _LoopAppendToExtend().run(self.tree)
        self.functions: Dict[str, ast.FunctionDef] = {}
        self.classes: Dict[str, ClassInfo] = {}
        self.assigns: Dict[str, List[ast.stmt]] = {}
        self.imports: Dict[str, Tuple[str, Optional[str]]] = {}
        self.star_imports: List[str] = []
        self.func_def_counts: Dict[str, int] = {}
        self._index(self.tree.body)
        _InlineFilterGenerators(self).run()

    def _index(self, body: Iterable[ast.stmt]) -> None:
        for st in body:
            if isinstance(st, (ast.FunctionDef, ast.AsyncFunctionDef)):
                decos = [ast.unparse(d) for d in st.decorator_list]
                if "overload" in decos:
                    continue
                self.functions[st.name] = st  # type: ignore[assignment]
                self.func_def_counts[st.name] = self.func_def_counts.get(st.name, 0) + 1
            elif isinstance(st, ast.ClassDef):
                self.classes[st.name] = ClassInfo(self, st)
            elif isinstance(st, ast.Assign):
                for t in st.targets:
                    for nm in _target_names(t):
                        self.assigns.setdefault(nm, []).append(st)
            elif isinstance(st, ast.AnnAssign):
                if isinstance(st.target, ast.Name) and st.value is not None:
                    self.assigns.setdefault(st.target.id, []).append(st)
            elif isinstance(st, ast.AugAssign):
                for nm in _target_names(st.target):
                    self.assigns.setdefault(nm, []).append(st)
            elif isinstance(st, ast.ImportFrom):
                base = self._resolve_relative(st.module, st.level)
                for a in st.names:
                    if a.name == "*":
                        self.star_imports.append(base)
                        continue
                    self.imports[a.asname or a.name] = (base, a.name)
            elif isinstance(st, ast.Import):
                for a in st.names:
                    if a.asname:
                        self.imports[a.asname] = (a.name, None)
                    else:
                        self.imports[a.name.split(".")[0]] = (a.name.split(".")[0], None)
            elif isinstance(st, ast.If):
                # version-conditional imports etc.: index both arms
                self._index(st.body)
                self._index(st.orelse)
            elif isinstance(st, ast.Try):
                self._index(st.body)

    def _resolve_relative(self, module: Optional[str], level: int) -> str:
        if level == 0:
            return module or ""
        parts = self.name.split(".")
        # a package's __init__ is its own package
        is_pkg = self.rel.endswith("__init__.py")
        if not is_pkg:
            parts = parts[:-1]
        if level > 1:
            parts = parts[: len(parts) - (level - 1)]
        base = ".".join(parts)
        if module:
            return base + "." + module if base else module
        return base

    def const_expr(self, name: str) -> Optional[ast.expr]:
        sts = self.assigns.get(name)
        if not sts or len(sts) != 1:
            return None
        st = sts[0]
        if isinstance(st, ast.AugAssign):
            return None
        return st.value  # type: ignore[union-attr]


def _target_names(t: ast.expr) -> List[str]:
    if isinstance(t, ast.Name):
        return [t.id]
    if isinstance(t, (ast.Tuple, ast.List)):
        out: List[str] = []
        for e in t.elts:
            out.extend(_target_names(e))
        return out
    return []


class Program:
    """All parsed units of the repository plus the stdlib classes it subclasses."""

    def __init__(self, root: str = REPO, overlay: Optional[Dict[str, str]] = None):
        self.root = root
        self.overlay = dict(overlay or {})
        self.modules: Dict[str, Module] = {}
        self.by_rel: Dict[str, Module] = {}
        for rel in PKG_FILES:
            src = self._read(rel)
            m = Module(_modname(rel), rel, src)
            self.modules[m.name] = m
            self.by_rel[rel] = m
        self._stdlib: Dict[str, Module] = {}
        self._fold_guard: set = set()
        self._static_aliases()
        self._relocations()

    def _static_aliases(self) -> None:
        """`name = staticmethod(f)` in a class body, f a module-level function of the package: the class gets a static method
        `name` with f's body (f's globals must be the class module's, or f must use none)."""
        import builtins
        import copy as _copy
        for m in list(self.modules.values()):
            for ci in m.classes.values():
                for nm, e in list(ci.class_consts.items()):
                    if nm in ci.methods or not (isinstance(e, ast.Call) and isinstance(e.func, ast.Name) and e.func.id == "staticmethod"
                                                and len(e.args) == 1 and not e.keywords and isinstance(e.args[0], ast.Name)):
                        continue
                    k, v = self.resolve(m, e.args[0].id)
                    if k != "func" or v[1].decorator_list:
                        continue
                    src_mod, fdef = v
                    if src_mod is not m:
                        bound = {a.arg for a in ast.walk(fdef.args) if isinstance(a, ast.arg)}
                        bound |= {n.id for n in ast.walk(fdef) if isinstance(n, ast.Name) and isinstance(n.ctx, ast.Store)}
                        free = {n.id for n in ast.walk(fdef) if isinstance(n, ast.Name) and isinstance(n.ctx, ast.Load)} - bound
                        if any(not hasattr(builtins, x) for x in free):
                            continue
                    new = _copy.deepcopy(fdef)
                    new.name = nm
                    new.decorator_list = [ast.copy_location(ast.Name("staticmethod", ast.Load()), fdef)]
                    ci.methods[nm] = new  # type: ignore[assignment]

    def _relocations(self) -> None:
        """A known function that moved between "static method of a class" and "module-level function" keeps its known name:
        `Cls.f` (inventory) that is now a module-level `f`, or a module-level `f` (inventory) that is now `Cls.f`."""
        from .inventory import KNOWN_FUNCTIONS
        from . import values as _v
        alias: Dict[str, str] = {}
        present = set()
        for m in self.modules.values():
            present |= {q for q, _ in iter_functions(m)}
        for known in KNOWN_FUNCTIONS:
            if known in present:
                continue
            if "." in known:
                cls, name = known.rsplit(".", 1)
                cands = [m for m in self.modules.values() if name in m.functions and name not in KNOWN_FUNCTIONS]
                if len(cands) == 1 and len([k for k in KNOWN_FUNCTIONS if k.endswith("." + name) and k not in present]) == 1:
                    alias[name] = known
            else:
                cands2 = [f"{ci.name}.{known}" for m in self.modules.values() for ci in m.classes.values()
                          if known in ci.methods and f"{ci.name}.{known}" not in KNOWN_FUNCTIONS
                          and any(ast.unparse(d).split(".")[-1] == "staticmethod" for d in ci.methods[known].decorator_list)]
                if len(cands2) == 1:
                    alias[cands2[0]] = known
        self.qual_alias = alias
        _v.QUAL_ALIAS.clear()
        _v.QUAL_ALIAS.update(alias)

    def _read(self, rel: str) -> str:
        if rel in self.overlay:
            return self.overlay[rel]
        p = os.path.join(self.root, rel)
        if not os.path.isfile(p):
            raise AnalysisError(f"anchor file missing: {rel}")
        with open(p, encoding="utf-8") as f:
            return f.read()

    # ---- stdlib ------------------------------------------------------------------
    def stdlib_module(self, name: str) -> Module:
        if name in self._stdlib:
            return self._stdlib[name]
        import importlib.util

        spec = importlib.util.find_spec(name)
        if spec is None or not spec.origin or not spec.origin.endswith(".py"):
            raise AnalysisError(f"stdlib source for {name} not available")
        with open(spec.origin, encoding="utf-8") as f:
            src = f.read()
        rel = "<stdlib>/" + name.replace(".", "/") + ("/__init__.py" if spec.submodule_search_locations else ".py")
        m = Module(name, rel, src)
        self._stdlib[name] = m
        return m

    # ---- lookup ------------------------------------------------------------------
    def module(self, name: str) -> Module:
        if name in self.modules:
            return self.modules[name]
        raise AnalysisError(f"module {name} not loaded")

    def core(self) -> Module:
        return self.module("htmltools._core")

    def util(self) -> Module:
        return self.module("htmltools._util")

    def jsx(self) -> Module:
        return self.module("htmltools._jsx")

    def resolve(self, mod: Module, name: str, _depth: int = 0) -> Tuple[str, Any]:
        """Resolve a module-level name to ('func', (Module, FunctionDef)) | ('class', ClassInfo)
        | ('const', (Module, expr)) | ('module', modname) | ('extern', (modname, name)) | ('unknown', name)."""
        if _depth > 10:
            return ("unknown", name)
        if name in mod.functions:
            return ("func", (mod, mod.functions[name]))
        if name in mod.classes:
            return ("class", mod.classes[name])
        if name in mod.assigns:
            e = mod.const_expr(name)
            if e is not None and isinstance(e, ast.Name) and e.id != name:
                # alias such as _html_escape = html_escape
                k, v = self.resolve(mod, e.id, _depth + 1)
                if k in ("func", "class"):
                    return (k, v)
            if e is not None and isinstance(e, ast.Attribute) and isinstance(e.value, ast.Name):
                # alias through a module: a = tags.a
                k, v = self.resolve(mod, e.value.id, _depth + 1)
                if k == "module" and v in self.modules:
                    k2, v2 = self.resolve(self.modules[v], e.attr, _depth + 1)
                    if k2 in ("func", "class"):
                        return (k2, v2)
            if e is not None:
                return ("const", (mod, e))
            return ("var", (mod, name))
        if name in mod.imports:
            src, orig = mod.imports[name]
            if orig is None:
                if src in self.modules:
                    return ("module", src)
                return ("extern_module", src)
            if src in self.modules:
                target = self.modules[src]
                # `from . import svg, tags` → submodule
                sub = f"{src}.{orig}" if src else orig
                if sub in self.modules and orig not in target.functions and orig not in target.classes and orig not in target.assigns:
                    return ("module", sub)
                return self.resolve(target, orig, _depth + 1)
            return ("extern", (src, orig))
        for src in reversed(mod.star_imports):
            # `from .m import *`: the names of m.__all__ when it is defined, else m's public names
            if src not in self.modules:
                raise AnalysisError(f"{mod.name}: star import from {src!r} outside the package is not modelled")
            target = self.modules[src]
            if target.const_expr("__all__") is not None or "__all__" in target.assigns:
                exported = self.fold_name(src, "__all__")
                if not isinstance(exported, (tuple, list)):
                    raise AnalysisError(f"{src}.__all__ does not fold to a sequence of names")
            else:
                exported = [n for n in list(target.functions) + list(target.classes) + list(target.assigns) + list(target.imports)
                            if not n.startswith("_")]
            if name in exported:
                return self.resolve(target, name, _depth + 1)
        return ("unknown", name)

    def get_class(self, name: str, mod: Optional[Module] = None) -> Optional[ClassInfo]:
        mods = [mod] if mod else []
        mods += [self.core(), self.jsx(), self.util()]
        for m in mods:
            if m is None:
                continue
            k, v = self.resolve(m, name)
            if k == "class":
                return v
        return None

    def function(self, modname: str, qual: str) -> ast.FunctionDef:
        """Locate 'f' or 'Class.method' (or 'outer.inner' nested function)."""
        m = self.module(modname)
        parts = qual.split(".")
        if len(parts) == 1:
            if parts[0] in m.functions:
                return m.functions[parts[0]]
        elif parts[0] in m.classes:
            ci = m.classes[parts[0]]
            if parts[1] in ci.methods:
                fn = ci.methods[parts[1]]
                return _descend(fn, parts[2:], modname, qual)
            # inherited from a base class defined in the package (a refactoring moved the method up)
            for c in self.mro(ci)[1:]:
                if isinstance(c, ClassInfo) and c.module.name.startswith("htmltools") and parts[1] in c.methods:
                    return _descend(c.methods[parts[1]], parts[2:], c.module.name, qual)
        elif parts[0] in m.functions:
            return _descend(m.functions[parts[0]], parts[1:], modname, qual)
        for new_q, old_q in getattr(self, "qual_alias", {}).items():
            if old_q == qual and new_q != qual:
                for m2 in self.modules.values():
                    if any(q == new_q for q, _ in iter_functions(m2)):
                        return self.function(m2.name, new_q)
        raise AnalysisError(f"anchor vanished: {modname}:{qual}")

    def has_function(self, modname: str, qual: str) -> bool:
        try:
            self.function(modname, qual)
            return True
        except AnalysisError:
            return False

    # ---- class hierarchy -----------------------------------------------------------
    def bases(self, ci: ClassInfo) -> List[Any]:
        """Resolved bases: ClassInfo for repo/stdlib-parsed classes, else a string name."""
        out: List[Any] = []
        for b in ci.base_exprs:
            expr = b
            if isinstance(expr, ast.Subscript):  # UserList[TagNode], Dict[str, ...]
                expr = expr.value
            nm = ast.unparse(expr)
            if isinstance(expr, ast.Name):
                k, v = self.resolve(ci.module, expr.id)
                if k == "class":
                    out.append(v)
                    continue
                if k == "extern":
                    src, orig = v
                    if src == "collections" and orig in ("UserList", "UserString", "UserDict"):
                        out.append(self.stdlib_module("collections").classes[orig])
                        continue
                    out.append(f"{src}.{orig}")
                    continue
            out.append(nm)
        return out

    def mro(self, ci: ClassInfo) -> List[Any]:
        seen: List[Any] = []

        def rec(c: Any) -> None:
            if any(c is s or c == s for s in seen):
                return
            seen.append(c)
            if isinstance(c, ClassInfo):
                for b in self.bases(c):
                    rec(b)

        rec(ci)
        return seen

    def find_method(self, ci: ClassInfo, name: str) -> Optional[Tuple[ClassInfo, ast.FunctionDef]]:
        for c in self.mro(ci):
            if isinstance(c, ClassInfo):
                if name in c.methods:
                    return (c, c.methods[name])
                if name in c.aliases and c.aliases[name] in c.methods:
                    return (c, c.methods[c.aliases[name]])
        return None

    def is_subclass(self, ci: ClassInfo, other: str) -> bool:
        """other: bare class name (repo or stdlib or builtin base name)."""
        for c in self.mro(ci):
            if isinstance(c, ClassInfo):
                if c.name == other:
                    return True
            else:
                if str(c).split(".")[-1] == other:
                    return True
        return False

    # ---- constant folder -------------------------------------------------------------
    def fold(self, expr: ast.expr, mod: Module, env: Optional[Dict[str, Any]] = None) -> Any:
        env = env or {}
        if isinstance(expr, ast.Constant):
            return expr.value
        if isinstance(expr, ast.Name):
            if expr.id in env:
                return env[expr.id]
            if expr.id in ("True", "False", "None"):
                return {"True": True, "False": False, "None": None}[expr.id]
            k, v = self.resolve(mod, expr.id)
            if k == "const":
                m2, e2 = v
                key = (m2.name, expr.id)
                if key in self._fold_guard:
                    raise NotConst(expr.id)
                self._fold_guard.add(key)
                try:
                    return self.fold(e2, m2)
                finally:
                    self._fold_guard.discard(key)
            raise NotConst(expr.id)
        if isinstance(expr, ast.Attribute) and isinstance(expr.value, ast.Name) and expr.value.id not in env:
            # a constant of another module of the package read through the module object: tags.__all__
            k, v = self.resolve(mod, expr.value.id)
            if k == "module" and v in self.modules:
                m2 = self.modules[v]
                e2 = m2.const_expr(expr.attr)
                if e2 is not None and not self.global_mutation_sites(m2.name, expr.attr):
                    key = (m2.name, expr.attr)
                    if key in self._fold_guard:
                        raise NotConst(expr.attr)
                    self._fold_guard.add(key)
                    try:
                        return self.fold(e2, m2)
                    finally:
                        self._fold_guard.discard(key)
            raise NotConst("Attribute")
        if isinstance(expr, ast.Tuple):
            return tuple(self._fold_elts(expr.elts, mod, env))
        if isinstance(expr, ast.List):
            return list(self._fold_elts(expr.elts, mod, env))
        if isinstance(expr, ast.Set):
            return set(self._fold_elts(expr.elts, mod, env))
        if isinstance(expr, ast.Dict):
            d: Dict[Any, Any] = {}
            for k_, v_ in zip(expr.keys, expr.values):
                if k_ is None:
                    sub = self.fold(v_, mod, env)
                    if not isinstance(sub, dict):
                        raise NotConst("**non-dict")
                    d.update(sub)
                else:
                    d[self.fold(k_, mod, env)] = self.fold(v_, mod, env)
            return d
        if isinstance(expr, ast.BinOp):
            l = self.fold(expr.left, mod, env)
            r = self.fold(expr.right, mod, env)
            try:
                if isinstance(expr.op, ast.Add):
                    return l + r
                if isinstance(expr.op, ast.Mult):
                    return l * r
                if isinstance(expr.op, ast.Mod):
                    return l % r
                if isinstance(expr.op, ast.Sub):
                    return l - r
                if isinstance(expr.op, ast.BitOr):
                    return l | r
            except Exception:
                raise NotConst("binop")
            raise NotConst("binop")
        if isinstance(expr, ast.Compare) and len(expr.ops) == 1:
            l = self.fold(expr.left, mod, env)
            r = self.fold(expr.comparators[0], mod, env)
            op = expr.ops[0]
            try:
                if isinstance(op, ast.In):
                    return l in r
                if isinstance(op, ast.NotIn):
                    return l not in r
                if isinstance(op, ast.Eq):
                    return l == r
                if isinstance(op, ast.NotEq):
                    return l != r
            except Exception:
                raise NotConst("compare")
            raise NotConst("compare")
        if isinstance(expr, ast.UnaryOp):
            v = self.fold(expr.operand, mod, env)
            if isinstance(expr.op, ast.Not):
                return not v
            if isinstance(expr.op, ast.USub):
                return -v
            raise NotConst("unary")
        if isinstance(expr, ast.JoinedStr):
            out = ""
            for part in expr.values:
                if isinstance(part, ast.Constant):
                    out += str(part.value)
                elif isinstance(part, ast.FormattedValue) and part.format_spec is None and part.conversion == -1:
                    out += str(self.fold(part.value, mod, env))
                else:
                    raise NotConst("fstring")
            return out
        if isinstance(expr, ast.Call):
            f = expr.func
            if isinstance(f, ast.Attribute) and f.attr == "join" and len(expr.args) == 1 and not expr.keywords:
                sep = self.fold(f.value, mod, env)
                seq = self.fold(expr.args[0], mod, env)
                if isinstance(sep, str) and isinstance(seq, (list, tuple, dict)):
                    items = list(seq)
                    if all(isinstance(i, str) for i in items):
                        return sep.join(items)
                raise NotConst("join")
            if isinstance(f, ast.Name) and f.id in ("set", "frozenset", "tuple", "list", "dict", "str") and not expr.keywords:
                args = [self.fold(a, mod, env) for a in expr.args]
                try:
                    return {"set": set, "frozenset": frozenset, "tuple": tuple, "list": list, "dict": dict, "str": str}[f.id](*args)
                except Exception:
                    raise NotConst("ctor")
            if isinstance(f, ast.Attribute) and f.attr in ("keys", "values", "items") and not expr.args:
                base = self.fold(f.value, mod, env)
                if isinstance(base, dict):
                    return list(getattr(base, f.attr)())
            # pure methods of constant strings / collections
            if isinstance(f, ast.Attribute) and not expr.keywords and f.attr in _PURE_METHODS:
                base = self.fold(f.value, mod, env)
                if isinstance(base, _PURE_METHODS[f.attr]):
                    args = [self.fold(a, mod, env) for a in expr.args]
                    try:
                        return getattr(base, f.attr)(*args)
                    except Exception:
                        raise NotConst("method")
            if isinstance(f, ast.Name) and f.id in ("range", "len") and not expr.keywords:
                args = [self.fold(a, mod, env) for a in expr.args]
                try:
                    if f.id == "len":
                        return len(*args)
                    if all(isinstance(a, int) and not isinstance(a, bool) for a in args) and len(range(*args)) <= 4096:
                        return list(range(*args))
                except Exception:
                    pass
                raise NotConst(f.id)
            if isinstance(f, ast.Name) and f.id == "sorted" and len(expr.args) == 1 and not expr.keywords:
                try:
                    return sorted(self.fold(expr.args[0], mod, env))
                except NotConst:
                    raise
                except Exception:
                    raise NotConst("sorted")
            raise NotConst("call")
        if isinstance(expr, (ast.ListComp, ast.GeneratorExp, ast.SetComp, ast.DictComp)) and len(expr.generators) == 1 \
                and isinstance(expr.generators[0].target, ast.Name) and not expr.generators[0].is_async:
            g = expr.generators[0]
            seq = self.fold(g.iter, mod, env)
            if not isinstance(seq, (list, tuple, set, frozenset, dict, str)):
                raise NotConst("comprehension iterable")
            items = sorted(seq, key=repr) if isinstance(seq, (set, frozenset)) else list(seq)
            outl: List[Any] = []
            outd: Dict[Any, Any] = {}
            for x in items:
                env2 = dict(env, **{g.target.id: x})
                if all(self.fold(c, mod, env2) for c in g.ifs):
                    if isinstance(expr, ast.DictComp):
                        outd[self.fold(expr.key, mod, env2)] = self.fold(expr.value, mod, env2)
                    else:
                        outl.append(self.fold(expr.elt, mod, env2))
            if isinstance(expr, ast.DictComp):
                return outd
            return set(outl) if isinstance(expr, ast.SetComp) else outl
        if isinstance(expr, ast.Starred):
            raise NotConst("starred")
        if isinstance(expr, ast.Subscript):
            base = self.fold(expr.value, mod, env)
            idx = self.fold(expr.slice, mod, env) if not isinstance(expr.slice, ast.Slice) else None
            if idx is None:
                raise NotConst("slice")
            try:
                return base[idx]
            except Exception:
                raise NotConst("subscript")
        raise NotConst(type(expr).__name__)

    def _fold_elts(self, elts: List[ast.expr], mod: Module, env: Dict[str, Any]) -> List[Any]:
        out: List[Any] = []
        for e in elts:
            if isinstance(e, ast.Starred):
                sub = self.fold(e.value, mod, env)
                out.extend(list(sub))
            else:
                out.append(self.fold(e, mod, env))
        return out

    def fold_name(self, modname: str, name: str) -> Any:
        m = self.module(modname)
        e = m.const_expr(name)
        if e is None:
            raise AnalysisError(f"anchor vanished or not a single-assignment constant: {modname}:{name}")
        try:
            return self.fold(e, m)
        except NotConst as ex:
            raise AnalysisError(f"cannot fold constant {modname}:{name} ({ex})")

    # ---- module-level mutable state -----------------------------------------------------
    def global_mutation_sites(self, modname: str, name: str) -> List[Dict[str, Any]]:
        """Sites anywhere in the package that mutate or rebind the module-level name `modname.name`."""
        key = (modname, name)
        cache = self.__dict__.setdefault("_gm_cache", {})
        if key in cache:
            return cache[key]
        sites: List[Dict[str, Any]] = []
        target_mod = self.modules.get(modname)
        for m in self.modules.values():
            if not m.name.startswith("htmltools"):
                continue
            # under which local names is the global visible in module m?
            aliases = set()
            if m is target_mod:
                aliases.add(name)
            for local, (src, orig) in m.imports.items():
                if orig == name and src == modname:
                    aliases.add(local)
            mod_aliases = {local for local, (src, orig) in m.imports.items()
                           if (orig is None and src == modname) or (orig is not None and f"{src}.{orig}" == modname)}
            if not aliases and not mod_aliases:
                continue
            for qn, fn in iter_functions(m):
                sites.extend(_mutations_in(fn, aliases, mod_aliases, name, m.name, qn))
            # module level statements (outside functions/classes)
            top = ast.Module(body=[st for st in m.tree.body if not isinstance(st, (ast.FunctionDef, ast.ClassDef))], type_ignores=[])
            for x in _mutations_in(top, aliases, mod_aliases, name, m.name, "<module>", top_level=True):
                sites.append(x)
        cache[key] = sites
        return sites

    # ---- inventory -------------------------------------------------------------------
    def inventory(self) -> Dict[str, int]:
        nf = 0
        nc = 0
        for m in self.modules.values():
            nf += len(m.functions)
            for c in m.classes.values():
                nc += 1
                nf += len(c.methods)
        return {"units": len(self.modules), "functions": nf, "classes": nc}


_MUTATORS = {"append", "extend", "insert", "pop", "remove", "clear", "update", "setdefault", "sort", "reverse", "add",
             "discard", "popitem", "__setitem__", "__delitem__", "appendleft", "move_to_end", "cache_clear"}


def _mutations_in(fn: ast.AST, aliases: set, mod_aliases: set, name: str, modname: str, qual: str,
                  top_level: bool = False) -> List[Dict[str, Any]]:
    out: List[Dict[str, Any]] = []
    local_names: set = set()
    declared_global: set = set()
    if not top_level and isinstance(fn, (ast.FunctionDef, ast.AsyncFunctionDef)):
        a = fn.args
        for p in a.posonlyargs + a.args + a.kwonlyargs + ([a.vararg] if a.vararg else []) + ([a.kwarg] if a.kwarg else []):
            local_names.add(p.arg)
        for n in ast.walk(fn):
            if isinstance(n, ast.Global):
                declared_global.update(n.names)
        for n in ast.walk(fn):
            if isinstance(n, ast.Name) and isinstance(n.ctx, ast.Store) and n.id not in declared_global:
                local_names.add(n.id)

    def is_ref(e: ast.AST) -> bool:
        if isinstance(e, ast.Name) and e.id in aliases and e.id not in local_names:
            return True
        if isinstance(e, ast.Attribute) and e.attr == name and isinstance(e.value, ast.Name) and e.value.id in mod_aliases \
                and e.value.id not in local_names:
            return True
        return False

    # local names bound (only) to the global itself or to something held by it: c = G / c = G[k] / c = G.get(k) / c = G.setdefault(k, ..)
    local_alias: set = set()
    if not top_level:
        def rooted(e: ast.AST) -> bool:
            while True:
                if is_ref(e):
                    return True
                if isinstance(e, ast.Subscript):
                    e = e.value
                elif isinstance(e, ast.Call) and isinstance(e.func, ast.Attribute) and e.func.attr in ("get", "setdefault", "__getitem__"):
                    e = e.func.value
                else:
                    return False
        binds: Dict[str, List[ast.AST]] = {}
        for n in ast.walk(fn):
            if isinstance(n, (ast.Assign, ast.AnnAssign)) and getattr(n, "value", None) is not None:
                for t in (n.targets if isinstance(n, ast.Assign) else [n.target]):
                    if isinstance(t, ast.Name):
                        binds.setdefault(t.id, []).append(n.value)
            elif isinstance(n, (ast.For, ast.comprehension)) :
                for x in ast.walk(n.target):
                    if isinstance(x, ast.Name):
                        binds.setdefault(x.id, []).append(ast.Constant(None))
            elif isinstance(n, ast.AugAssign) and isinstance(n.target, ast.Name):
                binds.setdefault(n.target.id, []).append(ast.Constant(None))
        for nm_, vals in binds.items():
            if nm_ not in declared_global and vals and all(rooted(v) for v in vals):
                local_alias.add(nm_)

    def is_held(e: ast.AST) -> bool:
        return isinstance(e, ast.Name) and e.id in local_alias

    for n in ast.walk(fn):
        if isinstance(n, (ast.Assign, ast.AugAssign, ast.AnnAssign, ast.Delete)):
            tgts = n.targets if isinstance(n, (ast.Assign, ast.Delete)) else [n.target]
            for t in tgts:
                if isinstance(t, (ast.Subscript, ast.Attribute)) and is_held(t.value):
                    out.append({"module": modname, "where": qual, "text": norm(n), "kind": "store", "line": n.lineno})
                elif isinstance(t, (ast.Subscript, ast.Attribute)) and is_ref(t.value):
                    out.append({"module": modname, "where": qual, "text": norm(n), "kind": "store", "line": n.lineno})
                elif isinstance(t, ast.Attribute) and is_ref(t):
                    out.append({"module": modname, "where": qual, "text": norm(n), "kind": "rebind", "line": n.lineno})
                elif isinstance(t, ast.Name) and not top_level and t.id in declared_global and t.id in aliases:
                    out.append({"module": modname, "where": qual, "text": norm(n), "kind": "rebind", "line": n.lineno})
                elif isinstance(t, ast.Name) and isinstance(n, ast.AugAssign) and top_level and t.id in aliases:
                    out.append({"module": modname, "where": qual, "text": norm(n), "kind": "rebind", "line": n.lineno})
        if isinstance(n, ast.Call) and isinstance(n.func, ast.Attribute) and n.func.attr in _MUTATORS and (is_ref(n.func.value) or is_held(n.func.value)):
            out.append({"module": modname, "where": qual, "text": norm(n), "kind": "mutcall", "line": n.lineno})
    return out


def _descend(fn: ast.FunctionDef, rest: List[str], modname: str, qual: str) -> ast.FunctionDef:
    cur = fn
    for nm in rest:
        found = None
        for st in ast.walk(cur):
            if isinstance(st, ast.FunctionDef) and st.name == nm and st is not cur:
                found = st
                break
        if found is None:
            raise AnalysisError(f"anchor vanished: {modname}:{qual}")
        cur = found
    return cur


# -------------------------------------------------------------------------------------
# Reflection precondition (DESIGN 3.1): the AST view is the program.
# -------------------------------------------------------------------------------------

_FORBIDDEN_CALLS = {"exec", "eval", "compile", "globals", "setattr", "delattr", "__import__", "vars", "locals"}


def reflection_sites(prog: Program) -> List[Dict[str, Any]]:
    """Return the list of reflective constructs in the package (excluding scripts/)."""
    out: List[Dict[str, Any]] = []
    for m in prog.modules.values():
        if not m.name.startswith("htmltools"):
            continue
        fn_of: Dict[int, str] = {}
        for qn, fn in iter_functions(m):
            for n in ast.walk(fn):
                fn_of.setdefault(id(n), qn)
        compared: set = set()
        for n in ast.walk(m.tree):
            if isinstance(n, ast.Compare):
                for c in [n.left] + list(n.comparators):
                    compared.add(id(c))
        for n in ast.walk(m.tree):
            where = fn_of.get(id(n), "<module>")
            if isinstance(n, ast.Call) and isinstance(n.func, ast.Name) and n.func.id == "getattr" and len(n.args) == 3 and id(n) in compared:
                continue      # a field read with a default whose value is only compared (the equality helper's idiom)
            if isinstance(n, ast.Call) and isinstance(n.func, ast.Name) and n.func.id in _FORBIDDEN_CALLS:
                out.append({"kind": n.func.id, "module": m.name, "where": where, "text": ast.unparse(n)})
            if isinstance(n, ast.Call) and isinstance(n.func, ast.Name) and n.func.id == "getattr":
                if len(n.args) >= 2 and not isinstance(n.args[1], ast.Constant):
                    out.append({"kind": "getattr", "module": m.name, "where": where, "text": ast.unparse(n)})
            # (`x.__dict__` is modelled by Engine A as the object's field map and needs no special permission)
            if isinstance(n, (ast.Assign, ast.AugAssign)):
                tgts = n.targets if isinstance(n, ast.Assign) else [n.target]
                for t in tgts:
                    if isinstance(t, ast.Attribute) and t.attr == "__class__":
                        out.append({"kind": "__class__=", "module": m.name, "where": where, "text": ast.unparse(n)})
            if isinstance(n, ast.FunctionDef) and n.name in ("__getattr__", "__getattribute__", "__setattr__"):
                out.append({"kind": n.name, "module": m.name, "where": where, "text": n.name})
    return out


# Reflective constructs that the engines model explicitly, by (kind, function).
_ALLOWED_REFLECTION = {
    ("__dict__", "Tag.__copy__"),
    ("__dict__", "HTMLDocument.__copy__"),
    ("__dict__", "JSXTag.__copy__"),
    ("__dict__", "_equals_impl"),
    ("getattr", "_equals_impl"),
}


def check_reflection_precondition(prog: Program) -> List[Dict[str, Any]]:
    bad = []
    for s in reflection_sites(prog):
        if (s["kind"], s["where"]) in _ALLOWED_REFLECTION:
            continue
        bad.append(s)
    return bad


def iter_functions(m: Module) -> Iterable[Tuple[str, ast.FunctionDef]]:
    for nm, fn in m.functions.items():
        yield nm, fn
    for ci in m.classes.values():
        for nm, fn in ci.methods.items():
            yield f"{ci.name}.{nm}", fn


def norm(node: ast.AST) -> str:
    """Normalised statement/expression text used in finding keys (never line numbers)."""
    s = ast.unparse(node)
    s = " ".join(s.split())
    return s if len(s) <= 160 else s[:157] + "..."


def first_line(node: ast.AST) -> int:
    return getattr(node, "lineno", 0)


def body_without_docstring(fn: ast.FunctionDef) -> List[ast.stmt]:
    b = list(fn.body)
    if b and isinstance(b[0], ast.Expr) and isinstance(b[0].value, ast.Constant) and isinstance(b[0].value.value, str):
        b = b[1:]
    return b
