"""Engine D: sources of run-to-run or history-dependent variation in a call-graph closure (DESIGN 3.5)."""

from __future__ import annotations

import ast
from typing import Any, Dict, Iterable, List, Optional, Set, Tuple

from .frontend import ClassInfo, Module, Program, iter_functions, norm

_NONDET_MODULES = {"random", "uuid", "time", "secrets", "datetime"}
_NONDET_CALLS = {"os.getpid", "os.urandom", "os.getenv", "os.environ.get", "time.time", "time.time_ns", "time.monotonic", "datetime.now",
                 "datetime.datetime.now", "datetime.utcnow", "uuid.uuid4", "uuid.uuid1", "random.random", "random.randint", "random.choice",
                 "secrets.token_hex", "tempfile.mkdtemp", "tempfile.mktemp", "os.listdir", "os.scandir", "glob.glob"}
_ORDER_INSENSITIVE = {"sorted", "len", "min", "max", "sum", "any", "all", "set", "frozenset", "bool"}


class FnInfo:
    def __init__(self, mod: Module, qual: str, node: ast.FunctionDef, cls: Optional[ClassInfo]):
        self.mod = mod
        self.qual = qual
        self.node = node
        self.cls = cls


def index_functions(prog: Program) -> Dict[str, FnInfo]:
    out: Dict[str, FnInfo] = {}
    for m in prog.modules.values():
        if not m.name.startswith("htmltools"):
            continue
        for nm, fn in m.functions.items():
            out[f"{m.name}:{nm}"] = FnInfo(m, nm, fn, None)
        for ci in m.classes.values():
            for nm, fn in ci.methods.items():
                out[f"{m.name}:{ci.name}.{nm}"] = FnInfo(m, f"{ci.name}.{nm}", fn, ci)
    return out


def callees(prog: Program, idx: Dict[str, FnInfo], f: FnInfo) -> Set[str]:
    """Over-approximate call targets: names resolved through the module, attribute calls by method name."""
    out: Set[str] = set()
    by_method: Dict[str, List[str]] = {}
    for k, fi in idx.items():
        if fi.cls is not None:
            by_method.setdefault(fi.qual.split(".")[-1], []).append(k)
    for n in ast.walk(f.node):
        if isinstance(n, ast.Call):
            fn = n.func
            if isinstance(fn, ast.Name):
                kind, v = prog.resolve(f.mod, fn.id)
                if kind == "func":
                    out.add(f"{v[0].name}:{v[1].name}")
                elif kind == "class":
                    for meth in ("__init__", "__new__"):
                        m = prog.find_method(v, meth)
                        if m is not None and m[0].module.name.startswith("htmltools"):
                            out.add(f"{m[0].module.name}:{m[0].name}.{meth}")
                elif fn.id in ("str", "repr", "len", "copy", "deepcopy", "bool"):
                    dunder = {"str": "__str__", "repr": "__repr__", "len": "__len__", "copy": "__copy__", "deepcopy": "__deepcopy__", "bool": "__bool__"}[fn.id]
                    out.update(by_method.get(dunder, []))
            elif isinstance(fn, ast.Attribute):
                out.update(by_method.get(fn.attr, []))
        elif isinstance(n, (ast.BinOp,)) and isinstance(n.op, ast.Add):
            out.update(by_method.get("__add__", []))
            out.update(by_method.get("__radd__", []))
        elif isinstance(n, ast.Compare):
            out.update(by_method.get("__eq__", []))
        elif isinstance(n, ast.JoinedStr):
            out.update(by_method.get("__str__", []))
        elif isinstance(n, ast.With):
            out.update(by_method.get("__enter__", []))
            out.update(by_method.get("__exit__", []))
    return {c for c in out if c in idx}


def closure(prog: Program, idx: Dict[str, FnInfo], roots: Iterable[str]) -> List[str]:
    seen: List[str] = []
    work = [r for r in roots if r in idx]
    while work:
        q = work.pop()
        if q in seen:
            continue
        seen.append(q)
        for c in callees(prog, idx, idx[q]):
            if c not in seen:
                work.append(c)
    return seen


# ---------------------------------------------------------------------------------------
# set-typed expressions
# ---------------------------------------------------------------------------------------

def _set_typed_params(prog: Program) -> Dict[Tuple[str, str], str]:
    """(function or class name, parameter) -> description of a call site in the package that passes a set / frozenset for it.
    The order in which the callee then iterates that parameter is the hash order of the caller's set."""
    cache = prog.__dict__.get("_set_typed_params")
    if cache is not None:
        return cache
    prog.__dict__["_set_typed_params"] = {}       # (re-entrancy: _set_typed_names consults this table)
    out: Dict[Tuple[str, str], str] = {}
    idx = index_functions(prog)
    by_name: Dict[str, List[FnInfo]] = {}
    for q, g in idx.items():
        by_name.setdefault(g.qual.split(".")[-1], []).append(g)
        if g.qual.endswith(".__init__") and g.cls is not None:
            by_name.setdefault(g.cls.name, []).append(g)
    for q, g in idx.items():
        ls = _set_typed_names(prog, g)
        for n in ast.walk(g.node):
            if not isinstance(n, ast.Call):
                continue
            nm = n.func.id if isinstance(n.func, ast.Name) else n.func.attr if isinstance(n.func, ast.Attribute) else None
            for callee in by_name.get(nm or "", []):
                a = callee.node.args
                pos = [p.arg for p in a.posonlyargs + a.args]
                if callee.cls is not None and pos and not any(ast.unparse(d).endswith("staticmethod") for d in callee.node.decorator_list):
                    pos = pos[1:]
                for i, arg in enumerate(n.args):
                    if not isinstance(arg, ast.Starred) and i < len(pos) and is_set_expr(prog, g, arg, ls):
                        out[(callee.qual, pos[i])] = f"{g.qual}: {norm(n)[:60]}"
                for kw in n.keywords:
                    if kw.arg and is_set_expr(prog, g, kw.value, ls):
                        out[(callee.qual, kw.arg)] = f"{g.qual}: {norm(n)[:60]}"
    prog.__dict__["_set_typed_params"] = out
    return out


def _set_typed_names(prog: Program, f: FnInfo) -> Set[str]:
    names: Set[str] = set()
    for (q_, p_), _w in prog.__dict__.get("_set_typed_params", {}).items():
        if q_ == f.qual:
            names.add(p_)
    changed = True
    while changed:
        changed = False
        for n in ast.walk(f.node):
            tgt = None
            val = None
            if isinstance(n, ast.Assign) and len(n.targets) == 1 and isinstance(n.targets[0], ast.Name):
                tgt, val = n.targets[0].id, n.value
            elif isinstance(n, ast.AnnAssign) and isinstance(n.target, ast.Name):
                tgt, val = n.target.id, n.value
                ann = ast.unparse(n.annotation)
                if ann.split("[")[0].split(".")[-1].strip("'\"") in ("set", "Set", "frozenset", "FrozenSet", "AbstractSet"):
                    if tgt not in names:
                        names.add(tgt)
                        changed = True
            if tgt is not None and val is not None and is_set_expr(prog, f, val, names) and tgt not in names:
                names.add(tgt)
                changed = True
    return names


def is_set_expr(prog: Program, f: FnInfo, e: ast.expr, local_sets: Set[str]) -> bool:
    if isinstance(e, (ast.Set, ast.SetComp)):
        return True
    if isinstance(e, ast.Call) and isinstance(e.func, ast.Name) and e.func.id in ("set", "frozenset"):
        return True
    if isinstance(e, ast.IfExp):
        return is_set_expr(prog, f, e.body, local_sets) or is_set_expr(prog, f, e.orelse, local_sets)
    if isinstance(e, ast.Call) and isinstance(e.func, ast.Attribute) and e.func.attr in ("union", "intersection", "difference", "symmetric_difference", "copy") \
            and is_set_expr(prog, f, e.func.value, local_sets):
        return True
    if isinstance(e, ast.Call) and isinstance(e.func, ast.Attribute) and e.func.attr == "keys" and False:
        return False
    if isinstance(e, ast.BinOp) and isinstance(e.op, (ast.Sub, ast.BitOr, ast.BitAnd, ast.BitXor)):
        return is_set_expr(prog, f, e.left, local_sets) or is_set_expr(prog, f, e.right, local_sets)
    if isinstance(e, ast.Name):
        if e.id in local_sets:
            return True
        k, v = prog.resolve(f.mod, e.id)
        if k == "const":
            try:
                return isinstance(prog.fold(v[1], v[0]), (set, frozenset))
            except Exception:
                return False
    if isinstance(e, ast.IfExp):
        return is_set_expr(prog, f, e.body, local_sets) or is_set_expr(prog, f, e.orelse, local_sets)
    return False


def set_iteration_sites(prog: Program, f: FnInfo) -> List[Tuple[ast.AST, str]]:
    out: List[Tuple[ast.AST, str]] = []
    _set_typed_params(prog)
    ls = _set_typed_names(prog, f)
    parents: Dict[int, ast.AST] = {}
    for n in ast.walk(f.node):
        for c in ast.iter_child_nodes(n):
            parents[id(c)] = n
    for n in ast.walk(f.node):
        if isinstance(n, (ast.For, ast.AsyncFor)) and is_set_expr(prog, f, n.iter, ls):
            out.append((n, f"for ... in {norm(n.iter)}"))
        if isinstance(n, ast.comprehension) and is_set_expr(prog, f, n.iter, ls):
            par = parents.get(id(n))
            if isinstance(par, (ast.SetComp,)):
                continue    # set -> set keeps no order anyway
            # a comprehension directly consumed by an order-insensitive function is fine
            gp = parents.get(id(par)) if par is not None else None
            if isinstance(gp, ast.Call) and isinstance(gp.func, ast.Name) and gp.func.id in _ORDER_INSENSITIVE:
                continue
            out.append((par or n, f"comprehension over {norm(n.iter)}"))
        if isinstance(n, ast.Call):
            fn = n.func
            if isinstance(fn, ast.Name) and fn.id in ("list", "tuple", "enumerate", "zip", "iter", "next", "reversed") and n.args \
                    and is_set_expr(prog, f, n.args[0], ls):
                out.append((n, f"{fn.id}({norm(n.args[0])})"))
            if isinstance(fn, ast.Attribute) and fn.attr == "join" and n.args and is_set_expr(prog, f, n.args[0], ls):
                out.append((n, f"join over the set {norm(n.args[0])}"))
            if isinstance(fn, ast.Attribute) and fn.attr == "pop" and not n.args and is_set_expr(prog, f, fn.value, ls):
                out.append((n, f"{norm(fn.value)}.pop()"))
            for a in n.args:
                if isinstance(a, ast.Starred) and is_set_expr(prog, f, a.value, ls):
                    out.append((n, f"*{norm(a.value)}"))
    return out


def hash_sites(prog: Program, f: FnInfo) -> List[Tuple[ast.AST, str]]:
    out = []
    shadow = {a.arg for a in f.node.args.args + f.node.args.kwonlyargs}
    for n in ast.walk(f.node):
        if isinstance(n, ast.Call) and isinstance(n.func, ast.Name) and n.func.id in ("hash", "id") and n.func.id not in shadow:
            if n.func.id not in f.mod.functions and n.func.id not in f.mod.assigns:
                out.append((n, f"{n.func.id}(...)"))
        if isinstance(n, ast.Attribute) and n.attr == "__hash__" and isinstance(n.value, ast.Name) and n.value.id == "object":
            out.append((n, "object.__hash__"))
    return out


def nondet_call_sites(prog: Program, f: FnInfo) -> List[Tuple[ast.AST, str]]:
    out = []
    for n in ast.walk(f.node):
        if isinstance(n, ast.Call):
            t = ast.unparse(n.func)
            root = t.split(".")[0]
            k, v = prog.resolve(f.mod, root)
            full = t
            if k == "extern_module":
                full = v + t[len(root):]
            elif k == "extern":
                full = f"{v[0]}.{v[1]}" + t[len(root):]
            if full in _NONDET_CALLS or full.split(".")[0] in ("random", "uuid", "secrets") or full.endswith(("datetime.now", "datetime.utcnow")):
                out.append((n, full + "(...)"))
        if isinstance(n, ast.Attribute) and ast.unparse(n) == "os.environ":
            out.append((n, "os.environ"))
    return out


def cache_decorators(f: FnInfo) -> List[str]:
    out = []
    for d in f.node.decorator_list:
        t = ast.unparse(d)
        if t.split("(")[0].split(".")[-1] in ("lru_cache", "cache", "cached_property"):
            out.append(t)
        elif _is_home_made_memoizer(f.mod, d):
            out.append(t)
    return out


def _is_home_made_memoizer(mod: Module, d: ast.expr) -> bool:
    """A decorator defined in the package itself whose wrapper keeps results in a container of the enclosing call:
    `def deco(fn): cache = {}; def wrapper(*a, **k): ... cache[key] = fn(...) ...; return wrapper`."""
    name = d.func if isinstance(d, ast.Call) else d
    if not isinstance(name, ast.Name):
        return False
    fn = mod.functions.get(name.id)
    if fn is None:
        return False
    containers = set()
    for st in fn.body:
        tg = st.targets[0] if isinstance(st, ast.Assign) and len(st.targets) == 1 else st.target if isinstance(st, ast.AnnAssign) and st.value is not None else None
        val = getattr(st, "value", None)
        if isinstance(tg, ast.Name) and (isinstance(val, (ast.Dict, ast.List, ast.Set)) or
                                         (isinstance(val, ast.Call) and isinstance(val.func, ast.Name) and val.func.id in ("dict", "list", "set", "OrderedDict", "defaultdict"))):
            containers.add(tg.id)
    if not containers:
        return False
    for inner in fn.body:
        if not isinstance(inner, ast.FunctionDef):
            continue
        for n in ast.walk(inner):
            if isinstance(n, (ast.Assign, ast.AugAssign)):
                for t in (n.targets if isinstance(n, ast.Assign) else [n.target]):
                    for sub in ast.walk(t):
                        if isinstance(sub, ast.Subscript) and isinstance(sub.value, ast.Name) and sub.value.id in containers:
                            return True
            if isinstance(n, ast.Call) and isinstance(n.func, ast.Attribute) and isinstance(n.func.value, ast.Name) and n.func.value.id in containers \
                    and n.func.attr in ("setdefault", "append", "add", "update", "__setitem__"):
                return True
    return False


def global_state_sites(prog: Program, idx: Dict[str, FnInfo], f: FnInfo, allowed: Set[str]) -> List[Tuple[ast.AST, str, str]]:
    """Reads/writes of module-level *variables* (names with a mutation/rebind site anywhere in the package)."""
    out: List[Tuple[ast.AST, str, str]] = []
    local: Set[str] = {a.arg for a in f.node.args.posonlyargs + f.node.args.args + f.node.args.kwonlyargs}
    if f.node.args.vararg:
        local.add(f.node.args.vararg.arg)
    if f.node.args.kwarg:
        local.add(f.node.args.kwarg.arg)
    declared: Set[str] = set()
    for n in ast.walk(f.node):
        if isinstance(n, ast.Global):
            declared.update(n.names)
    for n in ast.walk(f.node):
        if isinstance(n, ast.Name) and isinstance(n.ctx, ast.Store) and n.id not in declared:
            local.add(n.id)
        if isinstance(n, (ast.Import, ast.ImportFrom)):
            for a in n.names:
                local.discard(a.asname or a.name)
    seen: Set[str] = set()
    for n in ast.walk(f.node):
        if isinstance(n, ast.Name) and n.id not in local:
            k, v = prog.resolve(f.mod, n.id)
            if k in ("const", "var"):
                m2 = v[0]
                nm = n.id if k == "var" else None
                if k == "const":
                    # find the defining name in its own module
                    nm = n.id
                    if n.id in f.mod.imports and f.mod.imports[n.id][1]:
                        nm = f.mod.imports[n.id][1]
                qual = f"{m2.name}.{nm}"
                if qual in allowed or qual in seen:
                    continue
                sites = prog.global_mutation_sites(m2.name, nm) if m2.name.startswith("htmltools") else []
                rebinds = len(m2.assigns.get(nm, [])) > 1
                if sites or rebinds or n.id in declared:
                    seen.add(qual)
                    where = sites[0]["where"] if sites else "<module>"
                    out.append((n, qual, f"module-level state `{qual}` (modified in {where})"))
    for n in ast.walk(f.node):
        if isinstance(n, ast.ImportFrom):
            base = f.mod._resolve_relative(n.module, n.level)
            for a in n.names:
                qual = f"{base}.{a.name}"
                if base in prog.modules and a.name in prog.modules[base].assigns and qual not in allowed:
                    sites = prog.global_mutation_sites(base, a.name)
                    if sites or len(prog.modules[base].assigns.get(a.name, [])) > 1:
                        out.append((n, qual, f"module-level state `{qual}`"))
    return out
