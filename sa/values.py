"""Abstract values and the kind universe for Engine A (DESIGN 3.2)."""

from __future__ import annotations

import ast
import collections
import collections.abc
import itertools
from typing import Any, Dict, FrozenSet, List, Optional, Tuple

from .frontend import AnalysisError, ClassInfo, Program

_uid = itertools.count(1)


class Unmodelled(AnalysisError):
    pass


# ---------------------------------------------------------------------------------------
# kinds
# ---------------------------------------------------------------------------------------

class _Ext:  # stand-ins for external (user) classes
    pass


class KindInfo:
    def __init__(self, name: str, standin: Any = object, repo: Optional[str] = None,
                 methods: Tuple[str, ...] = (), singleton: Any = "<no>"):
        self.name = name
        self.standin = standin          # python class used for builtin/ABC subclass facts
        self.repo = repo                # repo class name, if any
        self.methods = set(methods)     # methods of an *external* kind
        self.singleton = singleton


KINDS: Dict[str, KindInfo] = {k.name: k for k in [
    KindInfo("STR", str),
    KindInfo("JSXEXPR", str, repo="jsx"),
    KindInfo("HTMLSTR", collections.UserString, repo="HTML"),
    KindInfo("TAG", object, repo="Tag"),
    KindInfo("TAGLIST", collections.UserList, repo="TagList"),
    KindInfo("META", object, repo="MetadataNode"),
    KindInfo("HTMLDEP", object, repo="HTMLDependency"),
    KindInfo("JSXTAG", object, repo="JSXTag"),
    KindInfo("TAGATTRDICT", dict, repo="TagAttrDict"),
    KindInfo("JSXATTRDICT", dict, repo="JSXTagAttrDict"),
    KindInfo("HTMLDOC", object, repo="HTMLDocument"),
    KindInfo("HTMLTEXTDOC", object, repo="HTMLTextDocument"),
    KindInfo("REPR_ONLY", object, methods=("_repr_html_",)),
    KindInfo("TAGIFIABLE_ONLY", object, methods=("tagify",)),
    KindInfo("TAGIFIABLE_REPR", object, methods=("tagify", "_repr_html_")),
    KindInfo("NONE", type(None), singleton=None),
    KindInfo("TRUE", bool, singleton=True),
    KindInfo("FALSE", bool, singleton=False),
    KindInfo("ELLIPSIS", type(Ellipsis), singleton=Ellipsis),
    KindInfo("INT", int),
    KindInfo("FLOAT", float),
    KindInfo("LIST", list),
    KindInfo("TUPLE", tuple),
    KindInfo("DICT", dict),
    KindInfo("SET", set),
    KindInfo("RANGE", range),       # a Sequence that is neither list, tuple, str nor UserList
    KindInfo("BYTES", bytes),
    KindInfo("SLICE", slice),
    KindInfo("VERSION", object),    # packaging.version.Version
    KindInfo("CALLABLE", type(len)),
    KindInfo("OTHER", object),
]}

ALL_KINDS: FrozenSet[str] = frozenset(KINDS)
# what may be stored in a TagList after normalisation (is_tag_node kinds); checked, not assumed, by C14
NODE_KINDS: FrozenSet[str] = frozenset(
    {"STR", "JSXEXPR", "HTMLSTR", "TAG", "META", "HTMLDEP", "JSXTAG", "REPR_ONLY", "TAGIFIABLE_ONLY",
     "TAGIFIABLE_REPR", "TAGLIST"})
META_KINDS: FrozenSet[str] = frozenset({"META", "HTMLDEP"})
ANY_VALUE_KINDS: FrozenSet[str] = ALL_KINDS - {"TAGATTRDICT", "JSXATTRDICT", "HTMLDOC", "HTMLTEXTDOC", "CALLABLE", "VERSION", "BYTES", "SLICE"}

_ABCS = {
    "Sequence": collections.abc.Sequence, "Mapping": collections.abc.Mapping, "Iterable": collections.abc.Iterable,
    "MutableSequence": collections.abc.MutableSequence, "MutableMapping": collections.abc.MutableMapping,
    "Hashable": collections.abc.Hashable, "Sized": collections.abc.Sized, "Container": collections.abc.Container,
    "Collection": collections.abc.Collection, "Callable": collections.abc.Callable, "Set": collections.abc.Set,
    "Dict": dict, "List": list, "Tuple": tuple,
    "UserList": collections.UserList, "UserString": collections.UserString, "UserDict": collections.UserDict,
}
_BUILTIN_TYPES = {"str": str, "int": int, "float": float, "bool": bool, "dict": dict, "list": list, "tuple": tuple,
                  "set": set, "frozenset": frozenset, "bytes": bytes, "object": object, "range": range,
                  "complex": complex, "type": type, "slice": slice}


class TypeRef:
    """The second argument of isinstance: a repo class, a python builtin/ABC, or an unknown external class."""

    def __init__(self, repo: Optional[ClassInfo] = None, py: Any = None, ext: Optional[str] = None):
        self.repo = repo
        self.py = py
        self.ext = ext

    def __repr__(self) -> str:
        if self.repo is not None:
            return f"<type {self.repo.name}>"
        if self.py is not None:
            return f"<type {getattr(self.py, '__name__', self.py)}>"
        return f"<type ext:{self.ext}>"

    @property
    def name(self) -> str:
        if self.repo is not None:
            return self.repo.name
        if self.py is not None:
            return getattr(self.py, "__name__", str(self.py))
        return str(self.ext)


class Universe:
    def __init__(self, prog: Program):
        self.prog = prog
        self._cache: Dict[Tuple[str, str], bool] = {}

    def repo_class(self, kind: str) -> Optional[ClassInfo]:
        r = KINDS[kind].repo
        if r is None:
            return None
        ci = self.prog.get_class(r)
        if ci is None:
            raise AnalysisError(f"anchor vanished: class {r}")
        return ci

    def kind_has_method(self, kind: str, meth: str) -> bool:
        ki = KINDS[kind]
        ci = self.repo_class(kind)
        if ci is not None:
            if self.prog.find_method(ci, meth) is not None:
                return True
            # builtin bases (dict/str) of repo classes
            return hasattr(ki.standin, meth) and ki.standin is not object
        if ki.methods:
            return meth in ki.methods
        return hasattr(ki.standin, meth)

    def class_has_method(self, ci: ClassInfo, meth: str) -> bool:
        if self.prog.find_method(ci, meth) is not None:
            return True
        for c in self.prog.mro(ci):
            if not isinstance(c, ClassInfo):
                py = _BUILTIN_TYPES.get(str(c).split(".")[-1]) or _ABCS.get(str(c).split(".")[-1])
                if py is not None and hasattr(py, meth):
                    return True
        return False

    def protocol_methods(self, ci: ClassInfo) -> List[str]:
        return [m for m in ci.methods if not m.startswith("__") or m == "__call__"]

    def kind_isinstance(self, kind: str, t: TypeRef) -> bool:
        key = (kind, repr(t))
        if key in self._cache:
            return self._cache[key]
        r = self._kind_isinstance(kind, t)
        self._cache[key] = r
        return r

    def _kind_isinstance(self, kind: str, t: TypeRef) -> bool:
        ki = KINDS[kind]
        if t.py is not None:
            try:
                return issubclass(ki.standin, t.py)
            except TypeError:
                raise Unmodelled(f"isinstance against {t!r}")
        if t.repo is not None:
            ci = t.repo
            if ci.is_protocol():
                if not ci.is_runtime_checkable():
                    raise Unmodelled(f"isinstance against non-runtime-checkable protocol {ci.name}")
                return all(self.kind_has_method(kind, m) for m in self.protocol_methods(ci))
            mine = self.repo_class(kind)
            if mine is None:
                return False
            return any(c is ci for c in self.prog.mro(mine))
        if t.ext == "packaging.version.Version":
            return kind == "VERSION"
        raise Unmodelled(f"isinstance against unknown external class {t.ext}")

    def class_isinstance(self, ci: ClassInfo, t: TypeRef) -> bool:
        """isinstance for an object whose exact repo class is known."""
        if t.repo is not None:
            tc = t.repo
            if tc.is_protocol():
                if not tc.is_runtime_checkable():
                    raise Unmodelled(f"isinstance against non-runtime-checkable protocol {tc.name}")
                return all(self.class_has_method(ci, m) for m in self.protocol_methods(tc))
            return any(c is tc for c in self.prog.mro(ci))
        if t.py is not None:
            for c in self.prog.mro(ci):
                if isinstance(c, ClassInfo):
                    nm = c.name
                else:
                    nm = str(c).split(".")[-1]
                py = _BUILTIN_TYPES.get(nm) or _ABCS.get(nm)
                if py is not None:
                    try:
                        if issubclass(py, t.py):
                            return True
                    except TypeError:
                        pass
            return t.py is object
        return False

    def kind_of_class(self, ci: ClassInfo) -> Optional[str]:
        for k, ki in KINDS.items():
            if ki.repo == ci.name:
                return k
        return None

    def py_isinstance(self, v: Any, t: TypeRef) -> bool:
        if t.py is not None:
            return isinstance(v, t.py)
        if t.repo is not None:
            ci = t.repo
            if ci.is_protocol() and ci.is_runtime_checkable():
                return all(hasattr(v, m) for m in self.protocol_methods(ci))
            return False
        return False


def kinds_of_pyvalue(v: Any) -> str:
    if v is None:
        return "NONE"
    if v is True:
        return "TRUE"
    if v is False:
        return "FALSE"
    if v is Ellipsis:
        return "ELLIPSIS"
    if isinstance(v, str):
        return "STR"
    if isinstance(v, int):
        return "INT"
    if isinstance(v, float):
        return "FLOAT"
    if isinstance(v, list):
        return "LIST"
    if isinstance(v, tuple):
        return "TUPLE"
    if isinstance(v, dict):
        return "DICT"
    if isinstance(v, (set, frozenset)):
        return "SET"
    return "OTHER"


# ---------------------------------------------------------------------------------------
# values
# ---------------------------------------------------------------------------------------

class Sym:
    pass


class SObj(Sym):
    """A symbolic object: one of `kinds`, identity `uid`."""

    def __init__(self, name: str, kinds: Any, origin: str = "input"):
        self.uid = next(_uid)
        self.name = name
        self.twins: List[Any] = []       # objects known to have the same runtime class (copies)
        self._kinds: FrozenSet[str] = frozenset(kinds)
        self.attrs: Dict[str, Any] = {}
        self.origin = origin             # 'input' (borrowed), 'new', 'opaque'
        self.known: Any = _NOVAL         # known concrete value (after an == decision)
        self.excluded: set = set()
        self.in_sets: Dict[FrozenSet[Any], bool] = {}
        self.elem_of: Any = None         # (collection SObj, view kinds, index) when this is a list element
        self.meta: Dict[str, Any] = {}

    @property
    def kinds(self) -> FrozenSet[str]:
        return self._kinds

    @kinds.setter
    def kinds(self, ks: Any) -> None:
        ks = frozenset(ks)
        self._kinds = ks
        for t in self.twins:
            if not (t._kinds <= ks):
                narrowed = t._kinds & ks
                if narrowed:
                    t.kinds = narrowed

    def __repr__(self) -> str:
        ks = ",".join(sorted(self.kinds)) if len(self.kinds) <= 4 else f"{len(self.kinds)} kinds"
        return f"<{self.name}:{ks}>"


_NOVAL = object()


class SNew(Sym):
    """An object constructed during the run; its class is known exactly."""

    def __init__(self, cls: Any, args: Tuple[Any, ...] = (), kwargs: Optional[Dict[str, Any]] = None,
                 star: Tuple[Any, ...] = (), dstar: Tuple[Any, ...] = ()):
        self.uid = next(_uid)
        self.cls = cls                   # ClassInfo | python type name string
        self.args = args
        self.kwargs = dict(kwargs or {})
        self.star = star
        self.dstar = dstar
        self.attrs: Dict[str, Any] = {}
        self.node: Optional[ast.AST] = None

    @property
    def cls_name(self) -> str:
        return self.cls.name if isinstance(self.cls, ClassInfo) else str(self.cls)

    def __repr__(self) -> str:
        a = [short(x) for x in self.args] + ["*" + short(x) for x in self.star] + \
            [f"{k}={short(v)}" for k, v in self.kwargs.items()] + ["**" + short(x) for x in self.dstar]
        return f"{self.cls_name}({', '.join(a)})"


class SBool(Sym):
    def __init__(self, atom: Any):
        self.atom = atom

    def __repr__(self) -> str:
        return f"<bool {self.atom}>"


class SInt(Sym):
    def __init__(self, base: str, off: int = 0):
        self.base = base
        self.off = off

    def __repr__(self) -> str:
        if self.off == 0:
            return self.base
        return f"{self.base}{self.off:+d}"

    def __eq__(self, o: Any) -> bool:
        return isinstance(o, SInt) and o.base == self.base and o.off == self.off

    def __hash__(self) -> int:
        return hash((self.base, self.off))


class Frag:
    """One fragment of a symbolic string."""
    __slots__ = ("kind", "a", "b", "c")

    def __init__(self, kind: str, a: Any = None, b: Any = None, c: Any = None):
        self.kind = kind
        self.a = a
        self.b = b
        self.c = c

    # kinds:
    #  LIT a=str
    #  OF  a=obj uid/name tuple, b=origin ('PLAIN'|'TRUSTED'|'REPRHTML'|'NUM'|...), c=esc tuple
    #  REP a=unit str, b=count (SInt|int)
    #  VAR a=name               (opaque string parameter such as eol)
    #  OP  a=descr tuple        (opaque call result / rendering)   b=payload c=esc tuple
    #  ACC a=name               (loop-carried accumulator prefix)
    #  LOOP a=loop id
    def key(self) -> Tuple[Any, ...]:
        return (self.kind, _hashable(self.a), _hashable(self.b), _hashable(self.c))

    def __eq__(self, o: Any) -> bool:
        return isinstance(o, Frag) and self.key() == o.key()

    def __hash__(self) -> int:
        return hash(self.key())

    def __repr__(self) -> str:
        if self.kind == "LIT":
            return repr(self.a)
        if self.kind == "OF":
            esc = "+".join(self.c) if self.c else "raw"
            return f"{self.b}[{self.a[1]}|{esc}]"
        if self.kind == "REP":
            return f"REP({self.a!r}*{self.b})"
        if self.kind == "VAR":
            return f"${self.a}"
        if self.kind == "OP":
            esc = ("|" + "+".join(self.c)) if self.c else ""
            return f"OP{self.a}{esc}"
        if self.kind == "ACC":
            return f"ACC<{self.a}>"
        if self.kind == "LOOP":
            return f"LOOP#{self.a}"
        return f"{self.kind}({self.a},{self.b},{self.c})"


def _hashable(x: Any) -> Any:
    if isinstance(x, (list, tuple)):
        return tuple(_hashable(i) for i in x)
    if isinstance(x, dict):
        return tuple(sorted((str(k), _hashable(v)) for k, v in x.items()))
    if isinstance(x, (set, frozenset)):
        return tuple(sorted(map(str, x)))
    if isinstance(x, (SObj, SNew)):
        return ("obj", x.uid)
    if isinstance(x, SStr):
        return ("sstr",) + tuple(f.key() for f in x.frags)
    if isinstance(x, SBool):
        return ("sbool", _hashable(x.atom))
    if isinstance(x, Sym):
        return repr(x)
    try:
        hash(x)
        return x
    except TypeError:
        return repr(x)


class SStr(Sym):
    def __init__(self, frags: Any = ()):
        out: List[Frag] = []
        for f in frags:
            if f.kind == "LIT":
                if f.a == "":
                    continue
                if out and out[-1].kind == "LIT":
                    out[-1] = Frag("LIT", out[-1].a + f.a)
                    continue
            out.append(f)
        self.frags: Tuple[Frag, ...] = tuple(out)

    def __repr__(self) -> str:
        return "S[" + " ".join(map(repr, self.frags)) + "]"

    def is_const(self) -> bool:
        return all(f.kind == "LIT" for f in self.frags)

    def const(self) -> str:
        return "".join(f.a for f in self.frags)

    def key(self) -> Tuple[Any, ...]:
        return tuple(f.key() for f in self.frags)

    def __eq__(self, o: Any) -> bool:
        return isinstance(o, SStr) and self.key() == o.key()

    def __hash__(self) -> int:
        return hash(self.key())


def lit(s: str) -> SStr:
    return SStr([Frag("LIT", s)])


class SList(Sym):
    """Abstract list.

    mode 'concrete': items is a python list of values (may contain SSplat for *x of a symbolic collection)
    mode 'view':     elements of a symbolic collection `base` restricted to `kinds`
    mode 'map':      [elt(x) for x in base-view]; `elt` is the value computed for the generic element `var`
    mode 'carried':  a list carried around a loop / unknown contents; appends are logged as effects
    """

    def __init__(self, mode: str, items: Optional[List[Any]] = None, base: Any = None, kinds: Any = None,
                 elt: Any = None, var: Any = None, name: str = "", cond: Any = None):
        self.uid = next(_uid)
        self.mode = mode
        self.items = items if items is not None else []
        self.base = base
        self.kinds = frozenset(kinds) if kinds is not None else None
        self.elt = elt
        self.var = var
        self.name = name
        self.cond = cond
        self.origin = "new"
        self.pytype = "list"

    def __repr__(self) -> str:
        if self.mode == "concrete":
            return f"{self.pytype}{self.items!r}"
        if self.mode == "view":
            return f"<view {short(self.base)}|{len(self.kinds or ())}k>"
        if self.mode == "map":
            return f"<map {short(self.elt)} for {short(self.var)} in {short(self.base)}>"
        return f"<list {self.name}>"


class SSplat(Sym):
    """`*x` of a non-concrete iterable inside a call or display."""

    def __init__(self, value: Any):
        self.value = value

    def __repr__(self) -> str:
        return f"*{short(self.value)}"


class SDict(Sym):
    def __init__(self, name: str = "", items: Optional[Dict[Any, Any]] = None, concrete: bool = True):
        self.uid = next(_uid)
        self.name = name
        self.items: Dict[Any, Any] = items if items is not None else {}
        self.concrete = concrete
        self.origin = "new"
        self.dstar: List[Any] = []

    def __repr__(self) -> str:
        if self.concrete:
            return "{" + ", ".join(f"{short(k)}: {short(v)}" for k, v in self.items.items()) + \
                "".join(f", **{short(d)}" for d in self.dstar) + "}"
        return f"<dict {self.name}>"


QUAL_ALIAS: Dict[str, str] = {}


class SFunc(Sym):
    def __init__(self, mod: Any, node: ast.AST, self_obj: Any = None, cls: Any = None, closure: Any = None,
                 qual: str = ""):
        self.mod = mod
        self.node = node
        self.self_obj = self_obj
        self.cls = cls
        self.closure = closure
        q0 = qual or getattr(node, "name", "<lambda>")
        self.qual = QUAL_ALIAS.get(q0, q0)      # a known function that moved between class and module keeps its known name

    def __repr__(self) -> str:
        return f"<func {self.qual}>"


class SClass(Sym):
    def __init__(self, ci: ClassInfo):
        self.ci = ci

    def __repr__(self) -> str:
        return f"<class {self.ci.name}>"


class SExtern(Sym):
    """A name from outside the repository: builtin, stdlib function, typing helper."""

    def __init__(self, mod: str, name: Optional[str]):
        self.mod = mod
        self.name = name

    @property
    def qual(self) -> str:
        return f"{self.mod}.{self.name}" if self.name else self.mod

    def __repr__(self) -> str:
        return f"<ext {self.qual}>"


class SBound(Sym):
    """A bound method of a value that is not a repo function (builtin method, external object's method)."""

    def __init__(self, recv: Any, name: str):
        self.recv = recv
        self.name = name

    def __repr__(self) -> str:
        return f"<bound {short(self.recv)}.{self.name}>"


class SSuper(Sym):
    def __init__(self, obj: Any, after: ClassInfo):
        self.obj = obj
        self.after = after


class SOpaque(Sym):
    """Result of a call that is not interpreted."""

    def __init__(self, descr: Any, kinds: Any = None):
        self.uid = next(_uid)
        self.descr = descr
        self.kinds = frozenset(kinds) if kinds else None
        self.attrs: Dict[str, Any] = {}
        self.origin = "opaque"

    def __repr__(self) -> str:
        return f"<opaque {self.descr}>"


class SGen(Sym):
    """A generator object: the function and its bound arguments; nothing of its body has run yet (lazy)."""
    _n = 0

    def __init__(self, func: Any, env: Dict[str, Any]):
        self.func = func
        self.env = env
        SGen._n += 1
        self.uid = 900000 + SGen._n
        self.name = f"{func.qual}(...)"

    def __repr__(self) -> str:
        return f"<generator {self.func.qual}>"


class SUnknown(Sym):
    def __init__(self, why: str):
        self.why = why

    def __repr__(self) -> str:
        return f"<unknown {self.why}>"


def short(v: Any) -> str:
    r = repr(v)
    return r if len(r) < 80 else r[:77] + "..."
