"""Static analysers for py-htmltools properties C01-C20.

Nothing in this package imports or executes repository code: every verdict is
computed from ASTs of /repo's current working tree (see DESIGN.md section 1).
"""
