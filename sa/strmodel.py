"""Evaluate a derived string pipeline (an abstract SStr built from stdlib string operations on one input)
on a constant probe word.  The pipeline is the analysis' own abstraction of the code; the probe words are the
finite sample named by the property (DESIGN 1, 'constant pushed through a derived transformer')."""

from __future__ import annotations

from typing import Any, Dict, Optional

from .values import Frag, SObj, SStr, Unmodelled


def _int(s: Any) -> Optional[int]:
    if s in ("", None):
        return None
    if isinstance(s, int):
        return s
    try:
        return int(str(s).strip("'"))
    except ValueError:
        raise Unmodelled(f"string pipeline: slice bound {s!r}")


def eval_sstr(v: Any, binding: Dict[int, str]) -> str:
    if isinstance(v, str):
        return v
    if isinstance(v, SObj):
        if v.uid in binding:
            return binding[v.uid]
        raise Unmodelled(f"string pipeline: free object {v!r}")
    if not isinstance(v, SStr):
        raise Unmodelled(f"string pipeline: {v!r}")
    out = ""
    for f in v.frags:
        if f.kind == "LIT":
            out += f.a
        elif f.kind == "OF":
            if f.a[0] in binding and not f.c:
                out += binding[f.a[0]]
            else:
                raise Unmodelled(f"string pipeline: fragment {f!r}")
        elif f.kind == "OP" and isinstance(f.a, tuple) and f.a and str(f.a[0]).startswith("str."):
            recv = eval_sstr(f.b, binding)
            meth = f.a[0][4:]
            args = list(f.a[1:])
            if not all(isinstance(a, (str, int)) for a in args):
                raise Unmodelled(f"string pipeline: non-constant arguments in {f!r}")
            out += getattr(recv, meth)(*args)
        elif f.kind == "OP" and isinstance(f.a, tuple) and f.a[:2] == ("call", "re.sub"):
            import re as _re
            p = f.b or {}
            args = p.get("args", [])
            interp = binding.get("__interp__")        # type: ignore[call-overload]
            callback = len(args) >= 3 and isinstance(args[0], str) and not isinstance(args[1], str) and interp is not None
            if len(args) < 3 or not isinstance(args[0], str) or (not isinstance(args[1], str) and not callback):
                raise Unmodelled("string pipeline: re.sub with non-constant pattern/replacement")
            kw = p.get("kwargs", {})
            cnt = kw.get("count", args[3] if len(args) > 3 else 0)
            fl = kw.get("flags", args[4] if len(args) > 4 else 0)
            if not isinstance(cnt, int) or not isinstance(fl, int):
                raise Unmodelled("string pipeline: re.sub count/flags")
            repl: Any = args[1]
            if callback:
                # a replacement callback: its image of each matched text, read off by Engine A
                from .tables import _callback_image
                cb = args[1]

                def repl(m: Any, cb: Any = cb) -> str:
                    img = _callback_image(interp, cb, m.group())
                    if img is None:
                        raise Unmodelled("string pipeline: re.sub callback result is not a constant string")
                    return img
            out += _re.sub(args[0], repl, eval_sstr(args[2], binding), count=cnt, flags=fl)
        elif f.kind == "OP" and isinstance(f.a, tuple) and f.a and f.a[0] == "slice":
            recv = eval_sstr(f.b, binding)
            out += recv[_int(f.a[1]):_int(f.a[2]):_int(f.a[3])]
        else:
            raise Unmodelled(f"string pipeline: fragment {f!r}")
    return out


def eval_atom(info: Dict[str, Any], binding: Dict[int, str]) -> bool:
    recv = eval_sstr(info["recv"], binding)
    arg = info["arg"]
    if not isinstance(arg, str):
        raise Unmodelled("string pipeline: non-constant predicate argument")
    return bool(getattr(recv, info["op"])(arg))
