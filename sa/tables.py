"""Engine E: folded tables, regex ASTs and the escape function (DESIGN 3.6, C02.4 / C03.4)."""

from __future__ import annotations

import html as _html
import re
from typing import Any, Dict, FrozenSet, List, Optional, Tuple

try:
    import re._parser as sre_parse  # type: ignore[import]
    import re._constants as sre_c  # type: ignore[import]
except Exception:  # pragma: no cover
    import sre_parse  # type: ignore[no-redef]
    import sre_constants as sre_c  # type: ignore[no-redef]

from .frontend import AnalysisError, Program
from .interp import Config, Interp, Leaf
from .report import Ctx
from .values import Frag, SBool, SList, SObj, SOpaque, SStr, Sym, Unmodelled, short

UTIL = "htmltools._util"
ESC = f"{UTIL}:html_escape"

TEXT_KEYS = ["&", "<", ">"]
ATTR_KEYS = ["&", "<", ">", '"', "'", "\r", "\n"]
# characters a step may touch in addition: checked to be mapped to something that decodes back
_PROBE = [chr(c) for c in range(32, 127)] + ["\t", "\r", "\n", "\x0b", "\x0c", " ", "é", " ", "\U0001f600"]


# ---------------------------------------------------------------------------------------
# regex facts
# ---------------------------------------------------------------------------------------

class RegexFacts:
    def __init__(self, pattern: str, flags: int = 0):
        self.pattern = pattern
        self.flags = flags
        try:
            self.tree = sre_parse.parse(pattern, flags)
        except Exception as e:
            raise Unmodelled(f"regex does not parse: {pattern!r} ({e})")
        self.has_assert = False
        self.has_anchor = False
        self._scan(self.tree)

    def _scan(self, sub: Any) -> None:
        for op, av in sub:
            if op in (sre_c.ASSERT, sre_c.ASSERT_NOT):
                self.has_assert = True
                self._scan(av[1])
            elif op == sre_c.AT:
                self.has_anchor = True
            elif op == sre_c.BRANCH:
                for b in av[1]:
                    self._scan(b)
            elif op == sre_c.SUBPATTERN:
                self._scan(av[3])
            elif op in (sre_c.MAX_REPEAT, sre_c.MIN_REPEAT):
                self._scan(av[2])

    def search_finds_char(self, ch: str) -> bool:
        """Does re.search(pattern, s) succeed on every s containing ch?  Decided as: the pattern has no anchors or
        look-around and matches the one-character string ch (then it matches inside any s containing ch)."""
        if self.has_assert or self.has_anchor:
            return False
        try:
            return re.compile(self.pattern, self.flags).fullmatch(ch) is not None or \
                re.compile(self.pattern, self.flags).search(ch) is not None
        except re.error:
            return False

    def single_char_set(self, alphabet: List[str]) -> Optional[FrozenSet[str]]:
        """If every match of the pattern is exactly one character regardless of context, the set of matched characters
        within `alphabet`; None if matches may be longer/empty or depend on context."""
        if self.has_assert or self.has_anchor:
            return None
        lo, hi = self.tree.getwidth()
        if lo != 1 or hi != 1:
            return None
        rx = re.compile(self.pattern, self.flags)
        return frozenset(c for c in alphabet if rx.fullmatch(c))


# ---------------------------------------------------------------------------------------
# the escape function, interpreted by Engine A
# ---------------------------------------------------------------------------------------

class Step:
    def __init__(self, kind: str, text: str):
        self.kind = kind        # 'replace' | 'resub'
        self.text = text
        self.key: Optional[str] = None
        self.value: Optional[str] = None
        self.count: Any = None
        self.regex: Optional[RegexFacts] = None


def _callback_image(interp: Any, cb: Any, ch: str) -> Any:
    """What the replacement callback `cb` returns for a match whose text is `ch` (Engine A, one path, a constant) or None."""
    from .interp import Config, _Raise
    from .values import SOpaque

    def body(run: Any) -> Tuple[Any, ...]:
        m = SOpaque(("match", ch))
        m.__dict__["match_text"] = ch
        try:
            return ("return", run.ev.call_function(cb, [m], {}))
        except _Raise as r:
            return ("raise", r.exc)

    try:
        leaves = interp.explore(body, Config())
    except Unmodelled:
        return None
    if len(leaves) != 1 or leaves[0].kind != "return":
        return None
    r = leaves[0].value
    if isinstance(r, SStr) and r.is_const():
        r = r.const()
    return r if isinstance(r, str) else None


def _unwind(v: Any, inp: SObj, interp: Any = None) -> Tuple[Optional[List[Step]], str]:
    """Decompose a returned abstract string into the chain of replacement steps applied to the input."""
    steps: List[Step] = []
    cur = v
    while True:
        if isinstance(cur, SObj):
            if cur is inp:
                return list(reversed(steps)), ""
            return None, f"returns {short(cur)}, which is not derived from the argument"
        if isinstance(cur, str):
            return None, f"returns the constant {cur!r}"
        if not isinstance(cur, SStr) or len(cur.frags) != 1:
            return None, f"returns {short(cur)}: not a chain of replacements on the argument"
        f = cur.frags[0]
        if f.kind == "OF" and f.a[0] == inp.uid and not f.c:
            return list(reversed(steps)), ""
        if f.kind == "OP" and isinstance(f.a, tuple) and f.a and f.a[0] == "str.replace":
            st = Step("replace", str(f.a))
            args = list(f.a[1:])
            if len(args) < 2 or not all(isinstance(a, str) for a in args[:2]):
                return None, f"replace with non-constant arguments: {f.a}"
            st.key, st.value = args[0], args[1]
            st.count = args[2] if len(args) > 2 else None
            steps.append(st)
            cur = f.b
            continue
        if f.kind == "OP" and isinstance(f.a, tuple) and f.a[:2] == ("call", "re.sub"):
            p = f.b
            args = p.get("args", [])
            kw = p.get("kwargs", {})
            if len(args) < 3 or not isinstance(args[0], str):
                return None, "re.sub with a non-constant pattern"
            st = Step("resub", f"re.sub({args[0]!r}, ...)")
            fl = kw.get("flags", args[4] if len(args) > 4 else 0)
            if not isinstance(fl, int):
                fl = 0
            st.regex = RegexFacts(args[0], fl)
            if not isinstance(args[1], str):
                # a callback: read off its image for every character the (single-character) pattern can match
                from .values import SFunc
                chars = st.regex.single_char_set(_PROBE)
                if not isinstance(args[1], SFunc) or interp is None or chars is None:
                    return None, f"re.sub with a callable/non-constant replacement {short(args[1])}"
                mapping: Dict[str, str] = {}
                for c_ in sorted(chars):
                    img = _callback_image(interp, args[1], c_)
                    if img is None:
                        return None, f"re.sub callback {short(args[1])}: result for {c_!r} is not a constant string"
                    mapping[c_] = img
                st.kind = "mapsub"
                st.__dict__["mapping"] = mapping
                st.count = kw.get("count", args[3] if len(args) > 3 else None)
                steps.append(st)
                cur = args[2]
                continue
            st.value = args[1]
            st.count = kw.get("count", args[3] if len(args) > 3 else None)
            steps.append(st)
            cur = args[2]
            continue
        if f.kind == "OP" and isinstance(f.a, tuple) and f.a[:1] == ("str.translate",) and len(f.a) == 2 and isinstance(f.a[1], tuple):
            st = Step("mapsub", "str.translate(<table>)")
            st.__dict__["mapping"] = dict(f.a[1])
            if any(len(k_) != 1 for k_ in st.__dict__["mapping"]):
                return None, "translate table with multi-character keys"
            steps.append(st)
            cur = f.b
            continue
        return None, f"returns {short(cur)}: operation not recognised as a character replacement"


def _apply_chain(steps: List[Step], ch: str) -> str:
    cur = ch
    for st in steps:
        if st.kind == "replace":
            cur = cur.replace(st.key, st.value)  # type: ignore[arg-type]
        elif st.kind == "mapsub":
            mp = st.__dict__["mapping"]
            cur = "".join(mp.get(c_, c_) for c_ in cur)          # all at once: images are not looked at again
        else:
            assert st.regex is not None
            cur = re.compile(st.regex.pattern, st.regex.flags).sub(st.value.replace("\\", "\\\\"), cur)  # type: ignore[union-attr]
    return cur


def _ref_ok(image: str, ch: str, forbidden: List[str]) -> Optional[str]:
    """image must be exactly one character reference decoding to ch and containing no forbidden raw character
    except its leading '&'."""
    if not re.fullmatch(r"&(#[0-9]+|#[xX][0-9a-fA-F]+|[A-Za-z][A-Za-z0-9]*);", image):
        return f"{ch!r} is emitted as {image!r}, which is not a single character reference"
    if _html.unescape(image) != ch:
        return f"{ch!r} is emitted as {image!r}, which decodes to {_html.unescape(image)!r}"
    for f in forbidden:
        if f != "&" and f in image:
            return f"{ch!r} is emitted as {image!r}, which contains the raw metacharacter {f!r}"
    return None


def check_escape_function(ctx: Ctx, modes: List[str], rule: str, strict_other: bool = False) -> None:
    """Obligations E1-E6 on htmltools._util.html_escape for the given modes ('text', 'attr')."""
    prog = ctx.prog
    I = Interp(prog)
    fn = prog.function(UTIL, "html_escape")
    params = [a.arg for a in fn.args.args]
    ctx.require(len(params) >= 2, "html_escape no longer takes (text, attr)")
    # E6: default of the mode parameter
    d = fn.args.defaults
    pos_defaults = dict(zip([a.arg for a in fn.args.args][::-1], d[::-1]))
    try:
        dflt = prog.fold(pos_defaults[params[1]], prog.util()) if params[1] in pos_defaults else None
    except Exception:
        dflt = "<unfoldable>"
    # E7: the function answers from its arguments alone, not from a table of earlier answers
    from . import nondet
    memo = nondet.cache_decorators(nondet.FnInfo(prog.util(), "html_escape", fn, None))
    ctx.check(not memo, f"{rule}.E7", "html_escape is not memoised", ESC, f"@{memo[0]}" if memo else "no cache decorator",
              f"html_escape is memoised (@{memo[0] if memo else ''}): the answer for one call is served to another whose arguments compare equal as cache keys "
              f"(a key that leaves out the mode, `HTML('x') == 'x'`), so the mode or the marking of an earlier call decides what is written",
              witness="html_escape('\"'); div(title='\"')")
    ctx.check(dflt is False, f"{rule}.E6", "html_escape's attr parameter defaults to False (text mode)", ESC,
              f"default {params[1]}={dflt!r}", "the exported html_escape() no longer escapes in text mode by default")
    for mode in modes:
        keys = TEXT_KEYS if mode == "text" else ATTR_KEYS
        cfg = Config()
        cfg.treat_escape_primitive = False
        holder: Dict[str, Any] = {}

        def mk(run: Any, mode: str = mode) -> Tuple[Dict[str, Any], Any]:
            t = SObj("text", {"STR"})
            run.__dict__["input_text"] = t
            return ({params[0]: t, params[1]: (mode == "attr")}, None)

        leaves = I.run_function(UTIL, "html_escape", mk, cfg)
        ctx.require(bool(leaves), "html_escape has no path")
        n_slow = 0
        for leaf in leaves:
            inp = leaf.run.__dict__["input_text"]
            if leaf.kind == "raise":
                ctx.fail(f"{rule}.E4", ESC, f"raise on a path ({mode} mode)", f"html_escape raises {short(leaf.value)} for some strings in {mode} mode")
                continue
            if any(_is_input_truth(a, inp) and not val for a, val in leaf.atoms):
                # the path of the empty string: it has to come back as the empty string
                v0 = leaf.value
                empty_back = v0 is inp or v0 == "" or (isinstance(v0, SStr) and v0.is_const() and v0.const() == "")
                ctx.check(bool(empty_back), f"{rule}.E4", f"the empty string is returned as it is ({mode} mode)", ESC, f"'' -> {short(v0)}",
                          f"html_escape maps the empty string to {short(v0)} in {mode} mode")
                continue
            steps, why = _unwind(leaf.value, inp, I)
            greads = [e for e in leaf.effects if e.kind == "global_read"]
            if steps is None:
                v = leaf.value
                item = v.meta.get("item_of") if isinstance(v, SObj) else None
                if item is not None and isinstance(item[0], SObj) and item[0].origin == "global":
                    key = item[1]
                    uses_mode = _mentions_bool(key)
                    ctx.check(uses_mode, f"{rule}.E4", f"memoised result in {mode} mode is keyed by the escaping mode", ESC,
                              f"return {item[0].name}[{short(key)}]",
                              f"html_escape returns a value cached in module state `{item[0].name}` under a key that ignores the "
                              f"escaping mode: text-mode and attribute-mode results are confused, depending on call history",
                              witness="html_escape(s) then html_escape(s, attr=True) for s containing '\"' and '<'")
                    continue
                raise Unmodelled(f"html_escape ({mode} mode): {why}")
            guards = _guards(leaf, inp)
            if not steps:
                # ---- fast path: input returned unchanged --------------------------------------------------
                if guards is None:
                    if greads:
                        ctx.fail(f"{rule}.E5", ESC, f"unchanged return depends on module state ({mode} mode)",
                                 f"html_escape returns its input unescaped depending on module-level state {greads[0].target}")
                        continue
                    raise Unmodelled(f"html_escape ({mode} mode): input returned unchanged under conditions not understood: {leaf.atoms}")
                if not guards:
                    ctx.fail(f"{rule}.E5", ESC, f"unconditional unchanged return ({mode} mode)",
                             f"html_escape returns its input unescaped in {mode} mode on an unguarded path",
                             witness=f"html_escape({keys[1]!r}, attr={mode == 'attr'})")
                    continue
                for g in guards:
                    fname, pat, flags, result = g
                    what = f"{fname}({pat!r}) guards the unchanged return ({mode} mode)"
                    if result is not False:
                        ctx.fail(f"{rule}.E5", ESC, what, f"input is returned unescaped when {fname} *succeeds*")
                        continue
                    if fname != "re.search":
                        ctx.fail(f"{rule}.E5", ESC, what,
                                 f"the fast path uses {fname}, which only looks at the start of the string: a metacharacter "
                                 f"later in the string is returned unescaped", witness=f"html_escape('a{keys[1]}')")
                        continue
                    rf = RegexFacts(pat, flags)
                    missing = [k for k in keys if not rf.search_finds_char(k)]
                    ctx.check(not missing, f"{rule}.E5", what + f" and finds each of {keys}", ESC, what,
                              f"the fast-path pattern {pat!r} does not detect {missing!r}: a string whose only metacharacters "
                              f"are {missing!r} is returned unescaped",
                              witness=f"html_escape({('a' + missing[0] + 'b') if missing else ''!r}, attr={mode == 'attr'})")
                continue
            # ---- slow path: a chain of replacements ----------------------------------------------------
            n_slow += 1
            bad_count = [s for s in steps if s.count not in (None, 0, -1)]
            for s in bad_count:
                ctx.fail(f"{rule}.E4", ESC, f"{s.text} ({mode} mode)",
                         f"replacement limited by count={s.count!r}: later occurrences stay unescaped",
                         witness=f"html_escape({(s.key or '&') * 2!r})")
            ctxdep = [s for s in steps if s.kind == "resub" and (s.regex.has_assert or s.regex.has_anchor)]  # type: ignore[union-attr]
            for s in ctxdep:
                ctx.fail(f"{rule}.E4", ESC, f"{s.text} ({mode} mode)",
                         "a replacement pattern with look-around/anchors skips a metacharacter depending on its context: "
                         "the output no longer decodes to the input (a character reference can be forged)",
                         witness="html_escape('&lt;') must give '&amp;lt;'")
            if bad_count or ctxdep:
                continue
            for s in steps:
                if s.kind == "resub" and s.regex.single_char_set(_PROBE) is None:  # type: ignore[union-attr]
                    raise Unmodelled(f"html_escape: {s.text} does not match single characters")
                if s.kind == "replace" and len(s.key or "") != 1:
                    raise Unmodelled(f"html_escape: replace of multi-character key {s.key!r}")
            for k in keys:
                img = _apply_chain(steps, k)
                err = _ref_ok(img, k, keys)
                ctx.check(err is None, f"{rule}.E1-3", f"{mode} mode: {k!r} -> {img!r} (one reference, decodes back)", ESC,
                          f"image of {k!r} in {mode} mode", err or "",
                          witness=f"html_escape({k!r}, attr={mode == 'attr'}) == {img!r}")
            for c in _PROBE:
                if c in keys:
                    continue
                img = _apply_chain(steps, c)
                if img != c and _html.unescape(img) != c:
                    ctx.fail(f"{rule}.E1-3", ESC, f"image of {c!r} in {mode} mode",
                             f"{c!r} is rewritten to {img!r}, which does not decode back to it")
                elif img != c and strict_other:
                    ctx.fail(f"{rule}.E1-3", ESC, f"image of {c!r} in {mode} mode",
                             f"{c!r} is rewritten to {img!r} in {mode} mode although it is not one of the characters this mode escapes ({''.join(keys)!r}): "
                             f"every other character must be left unchanged", witness=f"html_escape({('<' + c)!r}, attr={mode == 'attr'})")
            ctx.ok(f"{rule}.E1-3", f"{mode} mode: every other probed character is unchanged or decodes back ({len(_PROBE)} probes)")
            # the slow path must not be restricted to fewer strings than 'contains a key'
            if guards:
                for g in guards:
                    fname, pat, flags, result = g
                    if result is True and fname != "re.search":
                        ctx.fail(f"{rule}.E5", ESC, f"{fname}({pat!r}) selects the escaping path ({mode} mode)",
                                 f"escaping only happens when {fname} succeeds at the start of the string")
        ctx.check(n_slow >= 1, f"{rule}.E4", f"{mode} mode has an escaping path", ESC, f"no escaping path ({mode} mode)",
                  f"no path of html_escape escapes in {mode} mode")
    # E5b: the selected table
    ctx.count("escape paths analysed", len(modes))


def _mentions_bool(key: Any) -> bool:
    if isinstance(key, bool):
        return True
    if isinstance(key, (tuple, list)):
        return any(_mentions_bool(k) for k in key)
    if isinstance(key, SList) and key.mode == "concrete":
        return any(_mentions_bool(k) for k in key.items)
    return False


def _is_input_truth(atom: Any, inp: SObj) -> bool:
    return isinstance(atom, tuple) and len(atom) >= 2 and atom[0] in ("truthy", "nonempty", "truthy-kind") and atom[1] == inp.uid


def _guards(leaf: Leaf, inp: SObj) -> Optional[List[Tuple[str, str, int, Any]]]:
    """The path's assumptions as regex tests on the input; None if some assumption is not understood."""
    out: List[Tuple[str, str, int, Any]] = []
    for atom, val in leaf.atoms:
        if _is_input_truth(atom, inp):
            continue        # `if not text: return ""` - says nothing about which characters a non-empty text holds
        if isinstance(atom, tuple) and atom and atom[0] == "extcall" and atom[1] in ("re.search", "re.match", "re.fullmatch"):
            idx = atom[3] - 1
            eff = leaf.effects[idx] if 0 <= idx < len(leaf.effects) else None
            if eff is None or eff.kind != "extcall":
                return None
            args = eff.value or []
            kw = eff.extra or {}
            if len(args) < 2 or not isinstance(args[0], str) or args[1] is not inp:
                return None
            fl = kw.get("flags", args[2] if len(args) > 2 else 0)
            out.append((atom[1], args[0], fl if isinstance(fl, int) else 0, val))
        else:
            return None
    return out


# ---------------------------------------------------------------------------------------
# folded tables
# ---------------------------------------------------------------------------------------

def check_escape_tables(ctx: Ctx, rule: str, attr: bool) -> None:
    prog = ctx.prog
    name = "HTML_ATTRS_ESCAPE_TABLE" if attr else "HTML_ESCAPE_TABLE"
    keys = ATTR_KEYS if attr else TEXT_KEYS
    tbl = prog.fold_name(UTIL, name)
    ctx.require(isinstance(tbl, dict), f"{name} is not a dict constant")
    where = f"{UTIL}:{name}"
    missing = [k for k in keys if k not in tbl]
    ctx.check(not missing, f"{rule}.E1", f"{name} has a key for each of {keys}", where, f"{name} keys",
              f"{name} lacks {missing!r}", witness=f"html_escape({missing[0] if missing else ''!r}, attr={attr})")
    sites = prog.global_mutation_sites(UTIL, name)
    ctx.check(not sites, f"{rule}.E1", f"{name} is never mutated (it is a constant)", where,
              sites[0]["text"] if sites else "", f"{name} is modified at run time in {sites[0]['where'] if sites else ''}")
