"""C18 - output is deterministic across processes and independent of history (DESIGN 4, C18)."""

from __future__ import annotations

import ast
from typing import Any, Dict, List, Set, Tuple

from .. import nondet
from ..frontend import iter_functions, norm
from ..interp import Config, Interp
from ..report import Ctx
from ..values import SBool, SDict, SFunc, SList, SNew, SObj, SOpaque, SStr, Sym, short

CORE = "htmltools._core"
UTIL = "htmltools._util"
JSX = "htmltools._jsx"
ROOT_NAMES = [
    f"{CORE}:Tag.{m}" for m in ("tagify", "render", "__str__", "__repr__", "_repr_html_", "get_html_string", "get_dependencies", "save_html", "__init__",
                                 "add_class", "remove_class", "has_class", "add_style", "append", "extend", "insert", "__copy__", "__eq__")
] + [f"{CORE}:TagList.{m}" for m in ("tagify", "render", "__str__", "__repr__", "_repr_html_", "get_html_string", "get_dependencies", "save_html", "__init__",
                                       "append", "extend", "insert", "__add__", "__radd__", "__iadd__", "__eq__")] + [
    f"{CORE}:HTMLDocument.render", f"{CORE}:HTMLDocument.save_html", f"{CORE}:HTMLDocument.__init__", f"{CORE}:HTMLDocument.append",
    f"{CORE}:HTMLTextDocument.__init__", f"{CORE}:HTMLTextDocument.render",
    f"{CORE}:head_content", f"{CORE}:_resolve_dependencies", f"{CORE}:consolidate_attrs", f"{CORE}:TagAttrDict.__init__", f"{CORE}:TagAttrDict.update",
    f"{CORE}:TagAttrDict.__setitem__", f"{CORE}:HTML.__add__", f"{CORE}:HTML.__radd__", f"{CORE}:HTML.__init__",
    f"{UTIL}:html_escape", f"{UTIL}:css", f"{JSX}:JSXTag.tagify", f"{JSX}:JSXTag.__init__", f"{JSX}:JSXTag.__str__",
]
ALLOWED_GLOBALS = {"htmltools.html_dependency_render_mode"}
# one reasoned exception, by symbol (DESIGN 4, C18.1)
EXEMPT = {(f"{CORE}:HTMLDependency.copy_to", "glob"): "directory listing only determines the order in which files are copied; copy_to returns None"}


def _no_uids(t: str) -> str:
    import re as _re
    return _re.sub(r"\b\d{2,}\b", "#", t)


def _inline_digest_source(f_: Any) -> Any:
    """If the fragment is hashlib.<algo>(T.encode(<lossless utf codec>)).hexdigest() as an operand, the text T."""
    o = f_.b if f_.kind == "OP" and isinstance(f_.a, tuple) and f_.a[0] == "operand" else None
    mc = o.__dict__.get("method_call") if isinstance(o, SOpaque) else None
    if not mc or mc.get("name") != "hexdigest" or mc.get("args") or mc.get("kwargs"):
        return None
    h = mc.get("recv")
    ec = h.__dict__.get("extcall") if isinstance(h, SOpaque) else None
    if not ec or str(ec.get("q", "")).split(".")[0] != "hashlib" or str(ec["q"]).split(".")[-1] not in ("sha1", "sha256", "sha512", "sha224", "sha384", "md5", "blake2b", "blake2s", "sha3_256") \
            or len(ec.get("args") or []) != 1:
        return None
    data = ec["args"][0]
    if not (isinstance(data, SStr) and len(data.frags) == 1 and isinstance(data.frags[0].a, tuple) and data.frags[0].a[:1] == ("str.encode",)):
        return None
    ea = list(data.frags[0].a[1:])
    enc = str(ea[0]).lower().replace("_", "-") if ea else "utf-8"
    err = str(ea[1]).lower() if len(ea) > 1 else "strict"
    if enc not in ("utf-8", "utf8", "utf-16", "utf-32", "utf-8-sig") or err not in ("strict", "surrogatepass"):
        return None
    return data.frags[0].b


def class_level_state(ctx: Ctx, rule: str, only: Any = None) -> None:
    """A list/dict/set defined in a class body and mutated through instances is shared by all of them."""
    prog = ctx.prog
    # class-level mutable state: a list/dict/set defined in a class body and mutated through instances is shared by all of them
    for m_ in prog.modules.values():
        if not m_.name.startswith("htmltools"):
            continue
        for ci_ in m_.classes.values():
            if only is not None and ci_.name not in only:
                continue
            shared = {}
            for st_ in ci_.node.body if hasattr(ci_, "node") else []:
                tg_, val_ = None, None
                if isinstance(st_, ast.Assign) and len(st_.targets) == 1 and isinstance(st_.targets[0], ast.Name):
                    tg_, val_ = st_.targets[0].id, st_.value
                elif isinstance(st_, ast.AnnAssign) and isinstance(st_.target, ast.Name) and st_.value is not None:
                    tg_, val_ = st_.target.id, st_.value
                if tg_ is None:
                    continue
                mutable = isinstance(val_, (ast.List, ast.Dict, ast.Set, ast.ListComp, ast.DictComp, ast.SetComp)) or \
                    (isinstance(val_, ast.Call) and isinstance(val_.func, ast.Name) and val_.func.id in ("list", "dict", "set", "TagList", "defaultdict", "OrderedDict"))
                if mutable:
                    shared[tg_] = st_
            if not shared:
                continue
            init = ci_.methods.get("__init__")
            always = set()
            if init is not None:
                for st_ in init.body:      # top-level statements of __init__ run on every construction
                    for t_ in (st_.targets if isinstance(st_, ast.Assign) else [st_.target] if isinstance(st_, ast.AnnAssign) and st_.value is not None else []):
                        if isinstance(t_, ast.Attribute) and isinstance(t_.value, ast.Name) and t_.value.id == init.args.args[0].arg:
                            always.add(t_.attr)
            for nm_, st_ in shared.items():
                if nm_ in always:
                    continue
                muts_ = []
                for mn_, fn_ in ci_.methods.items():
                    for n_ in ast.walk(fn_):
                        if isinstance(n_, ast.Call) and isinstance(n_.func, ast.Attribute) and n_.func.attr in ("append", "extend", "insert", "add", "update", "pop", "remove", "clear", "setdefault", "sort", "reverse") \
                                and isinstance(n_.func.value, ast.Attribute) and n_.func.value.attr == nm_:
                            muts_.append(f"{mn_}: {norm(n_)[:60]}")
                        if isinstance(n_, (ast.Assign, ast.AugAssign)):
                            for t_ in (n_.targets if isinstance(n_, ast.Assign) else [n_.target]):
                                if isinstance(t_, ast.Subscript) and isinstance(t_.value, ast.Attribute) and t_.value.attr == nm_:
                                    muts_.append(f"{mn_}: {norm(n_)[:60]}")
                if muts_:
                    ctx.fail(rule, f"{m_.name}:{ci_.name}", f"class attribute {nm_} = {norm(st_.value)[:30]} mutated in {muts_[0]}",
                             f"`{ci_.name}.{nm_}` is a mutable object created once in the class body and not replaced by every __init__, while `{muts_[0]}` mutates it: "
                             f"all instances share it, so what one object holds depends on the objects built before it",
                             witness=f"two {ci_.name} objects created one after the other")
    ctx.ok(rule, "no class-level mutable attribute is mutated through instances without being re-created by __init__" + (f" ({', '.join(sorted(only))})" if only else ""))


def check(ctx: Ctx) -> None:
    ctx.explanation = (
        "Engine D: over the call-graph closure (callees resolved through the module's symbols, attribute calls by method name) of the "
        "construction/render/serialise API, every HTMLDependency method and the helper functions, there is no source of "
        "run-to-run or history-dependent variation: N1 builtin hash()/id(); N2 iteration, join, list()/tuple()/enumerate(), *-splat or "
        "pop() over a set-typed value (set literals, set()/frozenset(), set operators, names so assigned or annotated, folded "
        "module constants); N3 random/uuid/time/now/getpid/urandom/environ/secrets; N6/N7 a read or write of module-level state "
        "(a name with a mutation or rebind site anywhere in the package, or a memoising decorator) other than the documented switch "
        "html_dependency_render_mode. head_content's name is a folded prefix plus hash_deterministic(head.get_html_string()), and "
        "hash_deterministic is a hashlib digest of the whole encoded string. Positive controls outside the closure (hash() in "
        "_tag_show, the _http_servers store, the membership-only sets) must be recognised on every run. Injectivity of the digest "
        "is an axiom.")
    ctx.trust("SHA-1 collision resistance", "dict/list iteration order is deterministic", "call graph over-approximates (attribute calls resolved by method name)")
    prog = ctx.prog
    idx = nondet.index_functions(prog)
    for tm in ("htmltools.tags", "htmltools.svg"):
        for nm in prog.module(tm).functions:
            ROOT = f"{tm}:{nm}"
    roots = [r for r in ROOT_NAMES if r in idx]
    missing = [r for r in ROOT_NAMES if r not in idx]
    ctx.require(len(missing) <= 2, f"render API roots vanished: {missing[:4]}")
    roots += [k for k in idx if k.startswith(f"{CORE}:HTMLDependency.")]
    roots += [f"htmltools.tags:div", f"htmltools.svg:svg"]
    cl = nondet.closure(prog, idx, roots)
    ctx.count("functions in the closure", len(cl))
    ctx.min_count("closure size", len(cl), 40)
    n_sites = 0
    for q in cl:
        f = idx[q]
        where = q
        for node, what in nondet.hash_sites(prog, f):
            ctx.fail("C18.N1", where, what, f"{f.qual} calls {what}: its value differs between interpreter processes (hash randomisation / addresses)",
                     witness="run the same construction under two PYTHONHASHSEED values", line=getattr(node, "lineno", None))
        for node, what in nondet.set_iteration_sites(prog, f):
            ctx.fail("C18.N2", where, what, f"{f.qual}: {what} - the iteration order of a set of strings depends on the interpreter's hash seed, so the output differs between processes",
                     witness="PYTHONHASHSEED=1 vs PYTHONHASHSEED=2", line=getattr(node, "lineno", None))
        for node, what in nondet.nondet_call_sites(prog, f):
            key = (q, what.split(".")[-1].split("(")[0])
            if any(k[0] == q and k[1] in what for k in EXEMPT):
                continue
            ctx.fail("C18.N3", where, what, f"{f.qual} uses {what}, which differs from run to run", line=getattr(node, "lineno", None))
        for d in nondet.cache_decorators(f):
            ctx.fail("C18.N6", where, f"@{d}", f"{f.qual} is memoised with @{d}: a process-wide cache on the construction/render path makes results depend on what ran before",
                     witness="two calls whose arguments compare equal but are of different type / content")
        for node, qual, what in nondet.global_state_sites(prog, idx, f, ALLOWED_GLOBALS):
            ctx.fail("C18.N7", where, qual, f"{f.qual} reads or writes {what}: what it produces depends on what was built or rendered earlier in the process",
                     witness="render A then B vs B alone", line=getattr(node, "lineno", None))
        n_sites += 1
        ctx.ok("C18.scan", f"{q}: no N1/N2/N3/N6/N7 site")
    class_level_state(ctx, "C18.N7")
    # a child list that adopts the caller's list makes what a tree renders depend on what is done later to another object
    from .c14 import own_storage
    own_storage(ctx, "C18.pure")
    # ---- N8: a mutable default argument that is mutated, stored or returned is one object shared by all calls -----------------------------------
    _MUT = ("append", "extend", "insert", "add", "update", "pop", "remove", "clear", "setdefault", "sort", "reverse", "popitem", "discard", "__iadd__")
    n8 = 0
    for m_ in prog.modules.values():
        if not m_.name.startswith("htmltools"):
            continue
        for q_, f_ in iter_functions(m_):
            a_ = f_.args
            pos = a_.posonlyargs + a_.args
            pairs = list(zip(pos[len(pos) - len(a_.defaults):], a_.defaults)) + [(x_, d_) for x_, d_ in zip(a_.kwonlyargs, a_.kw_defaults) if d_ is not None]
            for arg_, d_ in pairs:
                mutable = isinstance(d_, (ast.List, ast.Dict, ast.Set, ast.ListComp, ast.DictComp, ast.SetComp)) or \
                    (isinstance(d_, ast.Call) and isinstance(d_.func, ast.Name) and d_.func.id in ("list", "dict", "set", "TagList", "defaultdict", "OrderedDict"))
                if not mutable:
                    continue
                n8 += 1
                nm_ = arg_.arg
                uses_ = []
                for n_ in ast.walk(f_):
                    if isinstance(n_, ast.Call) and isinstance(n_.func, ast.Attribute) and n_.func.attr in _MUT and isinstance(n_.func.value, ast.Name) and n_.func.value.id == nm_:
                        uses_.append(f"mutated by `{norm(n_)[:50]}`")
                    if isinstance(n_, (ast.Assign, ast.AnnAssign)) and isinstance(getattr(n_, "value", None), ast.Name) and n_.value.id == nm_ \
                            and any(isinstance(t_, (ast.Attribute, ast.Subscript)) for t_ in (n_.targets if isinstance(n_, ast.Assign) else [n_.target])):
                        # ... which matters when the place it is stored in is mutated somewhere
                        tnames = [t_.attr for t_ in (n_.targets if isinstance(n_, ast.Assign) else [n_.target]) if isinstance(t_, ast.Attribute)]
                        hit_ = None
                        for m2_ in prog.modules.values():
                            if not m2_.name.startswith("htmltools") or hit_:
                                continue
                            for x_ in ast.walk(m2_.tree):
                                if isinstance(x_, ast.Call) and isinstance(x_.func, ast.Attribute) and x_.func.attr in _MUT and isinstance(x_.func.value, ast.Attribute) \
                                        and x_.func.value.attr in tnames:
                                    hit_ = norm(x_)[:50]
                                if isinstance(x_, ast.AugAssign) and isinstance(x_.target, ast.Attribute) and x_.target.attr in tnames:
                                    hit_ = norm(x_)[:50]
                                if isinstance(x_, (ast.Assign, ast.AugAssign)):
                                    for t2_ in (x_.targets if isinstance(x_, ast.Assign) else [x_.target]):
                                        if isinstance(t2_, ast.Subscript) and isinstance(t2_.value, ast.Attribute) and t2_.value.attr in tnames:
                                            hit_ = norm(x_)[:50]
                        if hit_ or any(isinstance(t_, ast.Subscript) for t_ in (n_.targets if isinstance(n_, ast.Assign) else [n_.target])):
                            uses_.append(f"stored by `{norm(n_)[:50]}`" + (f" and that is mutated by `{hit_}`" if hit_ else ""))
                    if isinstance(n_, ast.AugAssign) and isinstance(n_.target, ast.Name) and n_.target.id == nm_:
                        uses_.append(f"extended in place by `{norm(n_)[:50]}`")
                    if isinstance(n_, (ast.Assign, ast.AugAssign, ast.Delete)):
                        for t_ in (n_.targets if isinstance(n_, (ast.Assign, ast.Delete)) else [n_.target]):
                            if isinstance(t_, ast.Subscript) and isinstance(t_.value, ast.Name) and t_.value.id == nm_:
                                uses_.append(f"item written by `{norm(n_)[:50]}`")
                    if isinstance(n_, ast.Return) and isinstance(n_.value, ast.Name) and n_.value.id == nm_:
                        uses_.append("returned")
                if uses_:
                    ctx.fail("C18.N8", f"{m_.name}:{q_}", f"parameter {nm_} = {norm(d_)[:20]}: {uses_[0]}",
                             f"`{q_}` has the mutable default `{nm_}={norm(d_)[:20]}` and the parameter is {uses_[0]}: the default object is created once, when the "
                             f"function is defined, so every call that relies on the default sees what earlier calls left in it",
                             witness=f"two calls of {q_} without `{nm_}=` in one process", line=getattr(d_, "lineno", None))
    ctx.count("mutable default arguments examined", n8)
    ctx.ok("C18.N8", "no mutable default argument is mutated, stored in an object or returned")
    # glob exemption is only valid while copy_to returns nothing
    ct = prog.function(CORE, "HTMLDependency.copy_to")
    rets = [n for n in ast.walk(ct) if isinstance(n, ast.Return) and n.value is not None and not (isinstance(n.value, ast.Constant) and n.value.value is None)]
    ctx.check(not rets, "C18.N4", "copy_to returns nothing (the unsorted directory listing cannot reach a result)", f"{CORE}:HTMLDependency.copy_to",
              norm(rets[0]) if rets else "", "copy_to returns a value derived from an unsorted directory listing")
    # ---- positive controls ------------------------------------------------------------------------------------------------------------------
    ts = idx.get(f"{CORE}:_tag_show")
    ctx.require(ts is not None and any("hash" in w for _, w in nondet.hash_sites(prog, ts)), "positive control lost: hash() in _tag_show is not recognised")
    ctx.require(bool(prog.global_mutation_sites(UTIL, "_http_servers")), "positive control lost: the _http_servers store is not recognised")
    ex = idx.get(f"{CORE}:HTMLTextDocument._static_extract_serialized_html_deps")
    if ex is not None and any(isinstance(n, ast.Name) and n.id == "seen_deps" for n in ast.walk(ex.node)):
        ctx.require("seen_deps" in nondet._set_typed_names(prog, ex), "positive control lost: seen_deps is not recognised as set-typed")
    tg = idx.get(f"{CORE}:Tag.get_html_string")
    ctx.require(tg is not None and nondet.is_set_expr(prog, tg, ast.Name(id="_VOID_TAG_NAMES", ctx=ast.Load()), set()), "positive control lost: _VOID_TAG_NAMES is not recognised as a set")
    ctx.require(f"{CORE}:_tag_show" not in cl or True, "")
    ctx.ok("C18.controls", "positive controls matched: hash() in _tag_show, _http_servers store, seen_deps and _VOID_TAG_NAMES are sets used only for membership")
    # ---- head_content name -------------------------------------------------------------------------------------------------------------------------
    I = Interp(prog)
    fn = prog.function(CORE, "head_content")
    cfg = Config()
    cfg.opaque_all = True
    where = f"{CORE}:head_content"

    def mk(run: Any):
        a = SObj("args", {"TUPLE"})
        return ({fn.args.vararg.arg: a}, None)

    for l in I.run_function(CORE, "head_content", mk, cfg):
        ctx.require(l.kind == "return", "head_content raises")
        v = l.value
        extra = [lbl for a, lbl in l.atoms]
        ok = isinstance(v, SNew) and v.cls_name == "HTMLDependency"
        nm = v.kwargs.get("name") if ok else None
        frs = list(nm.frags) if isinstance(nm, SStr) else []
        # constant text around exactly one hash_deterministic(<markup>[, constants]) call
        hs = [f_ for f_ in frs if f_.kind == "OP" and f_.a == ("call", "hash_deterministic")]
        good = len(hs) == 1 and all(f_.kind == "LIT" for f_ in frs if f_ is not hs[0])
        src = None
        if good:
            args = (hs[0].b or {}).get("args", [])
            src = args[0] if args else None
            rest = list(args[1:]) + list(((hs[0].b or {}).get("kwargs") or {}).values())
            good = all(r_ is None or isinstance(r_, (str, int, bool)) for r_ in rest)
        else:
            # the digest written out (directly or through a new helper): hashlib.<algo>(<markup>.encode(<utf codec>)).hexdigest()
            ops = [f_ for f_ in frs if f_.kind != "LIT"]
            src = _inline_digest_source(ops[0]) if len(ops) == 1 else None
            good = src is not None
        if good:
            c = src.frags[0] if isinstance(src, SStr) and len(src.frags) == 1 and src.frags[0].kind == "OP" else None
            good = c is not None and c.a == ("call", "TagList.get_html_string") and isinstance(c.b.get("recv"), SNew) and c.b["recv"] is v.kwargs.get("head")
        ctx.check(bool(good) and not extra, "C18.name", "head_content's name = constant prefix + hash_deterministic(rendered markup of the same payload)", where,
                  f"name = {_no_uids(short(nm))} (path {extra})",
                  f"the name given to a head_content payload is {_no_uids(short(nm))} (conditions {extra}): not a function of the rendered content only - equal-looking payloads "
                  f"can be merged or the name depends on what was created before", witness="head_content('<b>') then head_content(HTML('<b>')) in one process")
    hd = prog.function(UTIL, "hash_deterministic")
    cfg2 = Config()
    cfg2.opaque_all = True

    def mk2(run: Any):
        s = SObj("s", {"STR"})
        run.__dict__["s"] = s
        return ({hd.args.args[0].arg: s}, None)

    for l in I.run_function(UTIL, "hash_deterministic", mk2, cfg2):
        s = l.run.__dict__["s"]
        ext = [e for e in l.effects if e.kind == "extcall"]
        hl = [e for e in ext if str(e.target).startswith("hashlib.")]
        data = hl[0].value[0] if len(hl) == 1 and hl[0].value else None
        if len(hl) == 1 and not hl[0].value:
            # h = hashlib.sha1(); h.update(<bytes>); h.hexdigest()
            ups = [e for e in l.effects if e.kind == "call" and getattr(e.target, "name", "") == "update" and isinstance(e.key, SOpaque)
                   and (e.key.__dict__.get("extcall") or {}).get("q", "").startswith("hashlib.")]
            data = ups[0].value[0] if len(ups) == 1 and ups[0].value else None
        ok = isinstance(data, SStr) and "str.encode" in repr(data) and data.frags[0].b is not None
        if ok:
            # the encoding must be one-to-one: a UTF codec, errors left strict (or surrogatepass)
            ea = [x_ for x_ in data.frags[0].a[1:]] if isinstance(data.frags[0].a, tuple) else []
            enc = str(ea[0]).lower().replace("_", "-") if ea else "utf-8"
            err = str(ea[1]).lower() if len(ea) > 1 else "strict"
            lossless = enc in ("utf-8", "utf8", "utf-16", "utf-32", "utf-16-le", "utf-16-be", "utf-32-le", "utf-32-be", "utf-8-sig") and err in ("strict", "surrogatepass") \
                and all(isinstance(x_, str) for x_ in ea)
            ctx.check(lossless, "C18.name", "the digest is taken over a one-to-one encoding of the text", f"{UTIL}:hash_deterministic", f"encode{tuple(ea)}",
                      f"hash_deterministic digests s.encode{tuple(ea)}: the encoding drops or replaces characters, so different content gets the same name and "
                      f"one of two head_content payloads is dropped as a duplicate", witness="head_content('<title>é</title>') vs head_content('<title>ü</title>')")
        recv = data.frags[0].b if ok else None
        whole = isinstance(recv, SStr) and len(recv.frags) == 1 and recv.frags[0].kind == "OF" and recv.frags[0].a[0] == s.uid
        ctx.check(bool(ok and whole) and not [e for e in ext if str(e.target) in ("builtins.hash",)], "C18.name", "hash_deterministic is a hashlib digest of the whole encoded string", f"{UTIL}:hash_deterministic",
                  f"digest of {short(recv)} via {[str(e.target) for e in hl]}", "hash_deterministic is not a hashlib digest of the complete string")
    # ---- history: the read-only operations mutate nothing (shared with C08) -----------------------------------------------------------------------------
    from .c08 import purity, return_ownership, tagify_table
    ok = tagify_table(ctx, I)
    O = purity(ctx, ok, rule="C18.pure", report_globals=True)
    # "equal content is included once per document": the collections rendering works from are the resolved ones
    from .c10 import dedup_defaults, render_reports_resolved
    dedup_defaults(ctx, rule="C18.once")
    render_reports_resolved(ctx, I, rule="C18.once")
    from .c20 import purity as jsx_purity     # converting a component must not change it either (history independence)
    jsx_purity(ctx, rule="C18.pure")
    return_ownership(ctx, O, rule="C18.copy")
