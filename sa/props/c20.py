"""C20 - JSX components convert purely and surface all dependencies (DESIGN 4, C20)."""

from __future__ import annotations

import ast
import os
from typing import Any, Dict, List, Tuple

from ..eval_expr import _K
from ..frontend import REPO, norm
from ..interp import Config, Interp, _Raise
from ..ownership import Ownership
from ..report import Ctx
from ..values import (ALL_KINDS, ANY_VALUE_KINDS, META_KINDS, NODE_KINDS, SBool, SDict, SInt, SFunc, SList, SNew, SObj, SOpaque, SSplat, SStr, Sym,
                      Unmodelled, short)

JSX = "htmltools._jsx"
ENTRIES = ["JSXTag.tagify", "JSXTag.__str__", "JSXTag.__repr__", "JSXTag._repr_html_"]


def purity(ctx: Ctx, rule: str = "C20.pure") -> None:
    O = Ownership(ctx.prog)
    O.inline = {"_walk_attrs_and_children"}     # the walker is analysed with the actual visitor closure bound
    O.solve(list(ENTRIES))
    errs = [(q, O.sums[q].error) for q in O.analysed if O.sums[q].error]
    ctx.require(not errs, "ownership analysis cannot model: " + "; ".join(f"{q}: {e}" for q, e in errs[:3]))
    ctx.count("functions in the conversion closure", len(O.analysed))
    ctx.count("call sites resolved", O.resolved_calls)
    ctx.count("external calls assumed pure", O.unresolved_calls)
    for q in ENTRIES:
        ctx.require(q in O.sums, f"anchor vanished: {q}")
        sm = O.sums[q]
        bad = [(p, st) for p, sites in sm.mutates.items() for st in sites]
        if not bad:
            ctx.ok(rule, f"{q} mutates nothing reachable from the component", paths=sm.paths)
        for p, st in bad:
            chain = " -> ".join((q,) + st.chain)
            mod = JSX if st.fn in ("_walk_attrs_and_children",) or st.fn.startswith(("JSX", "_render", "_serialize", "_lib")) else "htmltools._core"
            ctx.fail(rule, f"{mod}:{st.fn if st.fn != q else q}", st.text(),
                     f"`{st.text()}` modifies {st.target}, which is reachable from the component being converted (`{p}` of {q}; call path {chain}): "
                     f"after tagify()/str() the component's own props/children are replaced by their expansions/copies",
                     witness="x = Foo(T()); x.tagify(); x.children[0]  # T tagifiable", line=getattr(st.node, "lineno", None))



def walker_coverage(ctx: Ctx, I: Interp) -> None:
    prog = ctx.prog
    where = f"{JSX}:_walk_attrs_and_children"
    fn = prog.function(JSX, "_walk_attrs_and_children")
    ps = [a.arg for a in fn.args.args]
    ctx.require(len(ps) == 2, "_walk_attrs_and_children signature changed")
    cfg = Config()
    cfg.opaque_all = True
    cfg.coarse_counts = True

    def mk(run: Any):
        x = SObj("x", ANY_VALUE_KINDS)
        f = SObj("fn", {"CALLABLE"})
        run.__dict__["o"] = (x, f)
        return ({ps[0]: x, ps[1]: f}, None)

    seen = set()
    for l in I.run_function(JSX, "_walk_attrs_and_children", mk, cfg):
        x, f = l.run.__dict__["o"]
        first = [e for e in l.effects if e.kind == "call" and e.target is f]
        ctx.require(len(first) >= 1 and first[0].value and first[0].value[0] is x, "the walker does not start with x = fn(x)")
        # the object examined after the visitor ran
        res = None
        for a, v in l.atoms:
            pass
        objs = [o for o in l.run.__dict__.get("module_values", {}).values()]
        loops = [e for e in l.effects if e.kind == "loop"]
        rec_calls = [e for e in l.effects if e.kind == "call" and getattr(e.target, "qual", "") == "_walk_attrs_and_children"]
        stores = [e for e in l.effects if e.kind == "store_item"]
        iters = []
        for e in loops:
            it = e.value
            d = getattr(it, "iter_descr", None)
            while d is not None and d[0] in ("enumerate", "reversed"):
                it = d[1]
                d = getattr(it, "iter_descr", None)
            if d is not None and d[0] == "items":
                it = d[1]
            ao = it.meta.get("attr_of") if isinstance(it, SObj) else None
            iters.append(ao[1] if ao else short(it))
        v = l.value
        kinds = None
        # kind of the visited object on this path: taken from the isinstance atoms on fn's result
        # (its kinds have been narrowed by whatever class tests the path took)
        ctx.require(isinstance(v, SObj), "the walker does not return the visited object")
        vk = set(v.kinds)
        ctx.require(vk <= {"TAG"} or vk <= {"JSXTAG"} or not (vk & {"TAG", "JSXTAG"}), "_walk_attrs_and_children: a path does not tell tags / components / other values apart")
        is_tag = vk <= {"TAG"}
        is_jsx = vk <= {"JSXTAG"}
        if is_tag:
            seen.add("TAG")
            ok = iters == ["children"] and len(rec_calls) >= 1 and len(stores) >= 1
            ctx.check(ok, "C20.walk", "for a Tag the walker visits (and writes back) every child", where, f"Tag: loops over {iters}, {len(rec_calls)} recursive calls",
                      f"for an HTML tag the walker iterates {iters}: metadata / tagifiable objects nested in its children are not reached")
        elif is_jsx:
            seen.add("JSXTAG")
            ok = sorted(iters) == ["attrs", "children"] and len(rec_calls) >= 2
            ctx.check(ok, "C20.walk", "for a component the walker visits every prop value and every child", where,
                      f"JSXTag: loops over {iters}, {len(rec_calls)} recursive calls",
                      f"for a component the walker iterates {iters}: dependencies inside prop values or children are not collected",
                      witness="Foo(p=div(dep)).tagify().get_dependencies()")
        else:
            ctx.check(not stores, "C20.walk", "other values are returned as the visitor left them", where, f"other: {len(stores)} stores", "the walker rewrites a non-tag value")
    ctx.require({"TAG", "JSXTAG"} <= seen, "_walk_attrs_and_children: no path for Tag / JSXTag")


def _as_function(prog: Any, v: Any) -> Any:
    """The function a callable value stands for: itself, or the __call__ of an instance of a package class (bound to it)."""
    if isinstance(v, SFunc):
        return v
    from ..frontend import ClassInfo
    if isinstance(v, SNew) and isinstance(v.cls, ClassInfo):
        m = prog.find_method(v.cls, "__call__")
        if m is not None and m[0].module.name.startswith("htmltools"):
            return SFunc(m[0].module, m[1], v, m[0], None, f"{m[0].name}.__call__")
    return None


def visitor_table(ctx: Ctx, I: Interp) -> None:
    """The closure passed to the walker, and what JSXTag.tagify returns."""
    prog = ctx.prog
    where = f"{JSX}:JSXTag.tagify"
    fn = prog.function(JSX, "JSXTag.tagify")
    cfg = Config()
    cfg.opaque_all = True
    cfg.coarse_counts = True
    holder: Dict[str, Any] = {}

    def mk(run: Any):
        s = SObj("self", {"JSXTAG"})
        run.__dict__["s"] = s
        return ({fn.args.args[0].arg: s}, s)

    leaves = I.run_function(JSX, "JSXTag.tagify", mk, cfg)
    ctx.require(bool(leaves), "JSXTag.tagify has no path")
    visitor = None
    mlist = None
    for l in leaves:
        s = l.run.__dict__["s"]
        ctx.require(l.kind == "return", f"JSXTag.tagify raises {short(l.value)}")
        walk = [e for e in l.effects if e.kind == "call" and getattr(e.target, "qual", "") == "_walk_attrs_and_children"]
        ctx.require(len(walk) == 1 and len(walk[0].value) == 2, "JSXTag.tagify does not call the walker with a visitor")
        visitor = _as_function(prog, walk[0].value[1])
        ctx.require(visitor is not None, "JSXTag.tagify does not call the walker with a visitor function")
        walked = walk[0].value[0]
        ctx.check(walked is s or (isinstance(walked, SObj) and walked.meta.get("copy_of") is s), "C20.collect", "the walk starts at the component", where,
                  f"walks {short(walked)}", "the walker is not started on the component itself")
        v = l.value
        ok_tag = isinstance(v, SNew) and v.cls_name == "Tag" and v.args and v.args[0] == "script"
        if not ctx.check(ok_tag, "C20.script", "the result is one <script> Tag", where, f"returns {short(v)}", f"JSXTag.tagify returns {short(v)}, not a single script tag"):
            continue
        libs = [a for a in v.args[1:] if isinstance(a, (SObj, SOpaque)) and (getattr(a, "meta", {}).get("call") or a.__dict__.get("call") or {}).get("func") is not None
                and (getattr(a, "meta", {}).get("call") or a.__dict__.get("call"))["func"].qual == "_lib_dependency"]
        pk = []
        for a in libs:
            c = getattr(a, "meta", {}).get("call") or a.__dict__.get("call")
            pk.append(c["args"][0] if c["args"] else None)
        ctx.check(sorted(map(str, pk)) == ["react", "react-dom"], "C20.deps", "the script carries the react and react-dom dependencies", where,
                  f"library dependencies {pk}", f"the converted component carries {pk} instead of both react and react-dom",
                  witness="Foo().tagify().get_dependencies()")
        holder["tag_node"] = v.node
        # where the splatted children of the script come from (access paths in tagify's own scope)
        env1 = getattr(l, "env", None) or {}
        for sv_ in v.star:
            for nm_, v_ in env1.items():
                if v_ is sv_:
                    holder.setdefault("star_paths", set()).add((nm_,))
                if isinstance(v_, SNew):
                    for a_, w_ in v_.attrs.items():
                        if w_ is sv_:
                            holder.setdefault("star_paths", set()).add((nm_, a_))
        # the component's JS is rendered from the walked copy
        rr = [e for e in l.effects if e.kind == "call" and getattr(e.target, "qual", "") == "_render_react_js"]
        if rr:
            a0 = rr[0].value[0] if rr[0].value else None
            walked_res = None
            ok = isinstance(a0, (SObj, SOpaque)) and (getattr(a0, "meta", {}).get("call") or a0.__dict__.get("call") or {}).get("func") is not None \
                and (getattr(a0, "meta", {}).get("call") or a0.__dict__.get("call"))["func"].qual == "_walk_attrs_and_children"
            ctx.check(ok, "C20.render", "the JavaScript is rendered from the walked (expanded) copy", where, f"_render_react_js({short(a0)})",
                      f"the React expression is rendered from {short(a0)}, not from the result of the walk: tagifiable descendants are not expanded in it")
    ctx.require(visitor is not None, "visitor not found")
    # ---- the visitor, per kind ------------------------------------------------------------------------
    vfn = visitor.node
    vp = [a.arg for a in vfn.args.args][(1 if visitor.self_obj is not None else 0) + len(visitor.__dict__.get("pre_args") or []):]
    vp = [a_ for a_ in vp if a_ not in (visitor.__dict__.get("pre_kwargs") or {})]
    ctx.require(len(vp) == 1, "visitor signature changed")
    vname = getattr(vfn, "name", "<lambda>")
    wv = f"{JSX}:JSXTag.tagify.{vname}"

    def body(run: Any) -> Tuple[Any, ...]:
        s = SObj("self", {"JSXTAG"})
        f = SFunc(prog.jsx(), fn, s, prog.jsx().classes["JSXTag"], None, "JSXTag.tagify")
        # run tagify up to the definition of the visitor, then call the visitor on a generic value
        from ..eval_expr import Frame
        env: Dict[str, Any] = {fn.args.args[0].arg: s}
        fr = Frame(f, env)
        run.ev.frames.append(fr)
        try:
            vis = None
            for st in fn.body:
                wcall = [n for n in ast.walk(st) if isinstance(n, ast.Call) and isinstance(n.func, ast.Name) and n.func.id == "_walk_attrs_and_children"
                         and len(n.args) == 2] if not isinstance(st, ast.FunctionDef) else []
                if wcall:
                    vis = _as_function(prog, run.ev.eval(wcall[0].args[1]))      # the visitor: a nested function, a lambda or a callable object
                    break
                if isinstance(st, (ast.FunctionDef, ast.Assign, ast.AnnAssign, ast.Expr)):
                    run.ev.exec(st)
            if not isinstance(vis, SFunc):
                raise Unmodelled("JSXTag.tagify: the visitor handed to the walker is not a function value")
            x = SObj("x", ANY_VALUE_KINDS)
            run.__dict__["o"] = (x, {k: v for k, v in fr.env.items()})
            try:
                r = run.ev.call_function(vis, [x], {})
                return ("return", r)
            except _Raise as rr:
                return ("raise", rr.exc)
        finally:
            run.ev.frames.pop()

    cfg2 = Config()
    cfg2.opaque_all = True
    seen = set()
    for l in I.explore(body, cfg2):
        x, env = l.run.__dict__["o"]
        lists = [v for v in env.values() if isinstance(v, SList)]
        r = l.value
        apps = [e for e in l.effects if e.kind == "mutcall" and e.key == "append" and isinstance(e.target, SList)]
        other_mut = [e for e in l.effects if e.kind in ("store_item", "mutcall") and e not in apps]
        # appends to a list of the enclosing scope are visible as its new items
        class _A:  # minimal stand-in with the fields used below
            def __init__(self, lst: Any, val: Any):
                self.target, self.value, self.key = lst, [val], "append"

            def __repr__(self) -> str:
                return f"store {short(self.value[0])}"
        pool_ = [((nm_,), v_) for nm_, v_ in env.items()]
        pool_ += [((nm_, a_), w_) for nm_, v_ in env.items() if isinstance(v_, SNew) for a_, w_ in v_.attrs.items()]     # a collector object
        for path_, lst in pool_:
            if isinstance(lst, SList) and lst.mode == "concrete":
                for it_ in lst.items:
                    apps.append(_A(lst, it_))
                    holder.setdefault("collector_names", set()).add(path_)
            elif isinstance(lst, (SDict,)) and lst.items:
                other_mut.append(_A(lst, list(lst.items.values())[0]))
        tagified = isinstance(r, SObj) and r.meta.get("tagify_of") is x or (isinstance(r, SObj) and (r.meta.get("call") or {}).get("recv") is x)
        copied = isinstance(r, SObj) and r.meta.get("copy_of") is x
        extra = [(a, v) for a, v in l.atoms if not (isinstance(a, tuple) and a[0] in ("isinstance", "kind", "kindgroup", "is"))]
        cond = f" when {extra[0][0][0]}={extra[0][1]}" if extra else ""
        # kinds of x on this path; the result's metadata-ness decides whether it must be collected
        for k in sorted(x.kinds):
            seen.add(k)
            is_tagifiable = I.U.kind_has_method(k, "tagify") and k not in ("TAG", "JSXTAG")
            if is_tagifiable:
                ctx.check(tagified, "C20.visit", f"a tagifiable {k} value is replaced by its tagify()", wv, f"{k}: returns {short(r)}{cond}",
                          f"a tagifiable descendant of kind {k} is not expanded{cond}")
            else:
                is_mutable_node = k in ("TAG", "JSXTAG", "META", "HTMLDEP", "LIST", "DICT")
                ctx.check((copied or not is_mutable_node) and (r is not x or not is_mutable_node), "C20.visit", f"a {k} value is copied before the walker may write into it", wv,
                          f"{k}: returns {short(r)}{cond}",
                          f"a {k} value is handed back uncopied{cond}: the walker then writes expansions into the component's own object",
                          witness="Foo(p=T()).tagify(); component.attrs['p']")
            if k in META_KINDS:
                ok = len(apps) == 1 and apps[0].value and (apps[0].value[0] is r) and not other_mut
                ctx.check(ok, "C20.collect", f"every {k} the visitor sees is appended to the collected list", wv,
                          f"{k}: appends {[short(e.value[0]) for e in apps]} other {[repr(e)[:50] for e in other_mut]}{cond}",
                          f"a metadata node of kind {k} seen during the walk is not simply appended to the collected nodes{cond}: "
                          f"dependencies can be dropped or replaced (e.g. two versions of one name)",
                          witness="Foo(div(dep_v1), p=div(dep_v2)).tagify().get_dependencies(dedup=False)")
        if tagified:
            # an expansion that is itself a metadata node must be collected as well
            mk_ = [a for a, v in l.atoms if isinstance(a, tuple) and a[0] == "isinstance" and a[1] == getattr(r, "uid", None) and "MetadataNode" in str(a[2])]
            ctx.check(bool(mk_) or (isinstance(r, SObj) and not (r.kinds & META_KINDS)) or bool(apps), "C20.collect",
                      "the expansion of a tagifiable is tested for being a metadata node", wv, f"expansion {short(r)}",
                      "the result of expanding a tagifiable descendant is not checked for being a dependency")
    ctx.require({"META", "HTMLDEP", "TAG", "JSXTAG"} <= seen, "visitor table incomplete")
    # the collected list is spliced into the returned Tag(...)
    names = holder.get("collector_names", set())
    tn = holder.get("tag_node")
    ctx.require(bool(names) and isinstance(tn, ast.Call), "collector list / returned Tag(...) call not identified")
    starred = []
    for a_ in tn.args:
        if isinstance(a_, ast.Starred) and isinstance(a_.value, ast.Name):
            starred.append((a_.value.id,))
            # `collected = collector.nodes` (a name bound once to an attribute of a collector object)
            for n_ in ast.walk(fn):
                if isinstance(n_, ast.Assign) and len(n_.targets) == 1 and isinstance(n_.targets[0], ast.Name) and n_.targets[0].id == a_.value.id \
                        and isinstance(n_.value, ast.Attribute) and isinstance(n_.value.value, ast.Name):
                    starred.append((n_.value.value.id, n_.value.attr))
        if isinstance(a_, ast.Starred) and isinstance(a_.value, ast.Attribute) and isinstance(a_.value.value, ast.Name):
            starred.append((a_.value.value.id, a_.value.attr))
    ctx.check(any(n in names for n in starred), "C20.collect", "the collected metadata nodes are children of the script (Tag(..., *collected))", where,
              f"Tag(...) stars {starred}; collector {sorted(names)}", "the metadata nodes collected during the walk are not attached to the returned script tag",
              witness="Foo(div(dep)).tagify().get_dependencies()")


def react_files(ctx: Ctx) -> None:
    """The HTMLDependency objects that JSXTag.tagify creates for the React libraries (read from Engine A's run of tagify with
    _lib_dependency interpreted): a pinned version exists and the script file is in the package's lib directory."""
    prog = ctx.prog
    where = f"{JSX}:_lib_dependency"
    versions = prog.fold_name("htmltools._versions", "versions")
    ctx.require(isinstance(versions, dict), "versions table not folded")
    fn = prog.function(JSX, "JSXTag.tagify")
    I = Interp(prog)
    cfg = Config()
    cfg.opaque_all = True
    cfg.coarse_counts = True
    cfg.inline = {"_lib_dependency"}

    def mk(run: Any):
        s_ = SObj("self", {"JSXTAG"})
        return ({fn.args.args[0].arg: s_}, s_)

    root = getattr(prog, "root", REPO)
    seen: Dict[str, Any] = {}
    for l in I.run_function(JSX, "JSXTag.tagify", mk, cfg):
        for e in l.effects:
            if e.kind == "new" and isinstance(e.target, SNew) and e.target.cls_name == "HTMLDependency":
                kw = dict(e.target.kwargs)
                pos = list(e.target.args)
                pkg = kw.get("name", pos[0] if pos else None)
                seen[str(pkg)] = (kw, pos)
    ctx.require(len(seen) >= 2, "JSXTag.tagify no longer creates the library dependencies")
    for pkg, (kw, pos) in sorted(seen.items()):
        ctx.check(pkg in versions, "C20.files", f"versions has an entry for {pkg}", "htmltools._versions:versions", f"versions keys {sorted(versions)}",
                  f"no pinned version for {pkg}")
        script = kw.get("script")
        if isinstance(script, SDict) and script.concrete:
            src = script.items.get("src")
        elif isinstance(script, dict):
            src = script.get("src")
        else:
            src = None
        if isinstance(src, SStr) and src.is_const():
            src = src.const()
        ctx.require(isinstance(src, str), f"script item of the {pkg} dependency is not a constant {{'src': ...}} ({short(script)})")
        source = kw.get("source")
        sub = source.items.get("subdir") if isinstance(source, SDict) else (source.get("subdir") if isinstance(source, dict) else None)
        if isinstance(sub, SStr) and sub.is_const():
            sub = sub.const()
        ctx.require(isinstance(sub, str), f"source of the {pkg} dependency is not a constant package sub-directory ({short(source)})")
        path = os.path.join(root, "htmltools", str(sub), str(src))
        ctx.check(os.path.isfile(path), "C20.files", f"htmltools/{sub}/{src} exists in the package", where, f"{sub}/{src}",
                  f"the script file {sub}/{src} named by the {pkg} dependency does not exist in the working tree",
                  witness=f"Foo().tagify().get_dependencies()  ->  copy_to fails for {pkg}")


def serialize_table(ctx: Ctx, I: Interp) -> None:
    prog = ctx.prog
    where = f"{JSX}:_serialize_attr"
    fn = prog.function(JSX, "_serialize_attr")
    p = fn.args.args[0].arg
    cfg = Config()
    cfg.opaque_all = True
    cfg.coarse_counts = True

    def mk(run: Any):
        x = SObj("x", ANY_VALUE_KINDS | {"JSXEXPR"})
        run.__dict__["x"] = x
        return ({p: x}, None)

    seen = set()
    for l in I.run_function(JSX, "_serialize_attr", mk, cfg):
        x = l.run.__dict__["x"]
        ctx.require(l.kind == "return", f"_serialize_attr raises {short(l.value)}")
        v = l.value
        extra = [(a, lbl) for a, lbl in l.atoms if not (isinstance(a, tuple) and a[0] in ("isinstance", "kind", "kindgroup", "is") and a[1] == x.uid)]
        cond = f" when {extra[0][0][0]}" if extra else ""
        calls = [e for e in l.effects if e.kind == "call" and isinstance(e.target, SFunc)]
        for k in sorted(x.kinds):
            seen.add(k)
            got = short(v)
            if k == "NONE":
                ok = v == "null"
                want = "null"
            elif k in ("TAG", "JSXTAG"):
                ok = any(c.target.qual == "_render_react_js" and c.value and c.value[0] is x for c in calls)
                want = "React.createElement(...) via _render_react_js"
            elif k in ("TRUE", "FALSE"):
                ok = isinstance(v, str) and v == ("true" if k == "TRUE" else "false")
                want = "true/false"
            elif k in ("INT", "FLOAT", "JSXEXPR"):
                ok = isinstance(v, SStr) and len(v.frags) == 1 and v.frags[0].kind == "OF" and v.frags[0].a[0] == x.uid and not v.frags[0].c
                want = "str(x)"
            elif k in ("LIST", "TUPLE"):
                ok = _is_list_serialisation(v, x)
                want = "'[' + ', '.join(_serialize_attr(y) for y in x) + ']'"
            elif k == "DICT":
                ok = isinstance(v, SStr) and v.frags and v.frags[0].kind == "LIT" and v.frags[0].a.startswith("{") and v.frags[-1].kind == "LIT" and v.frags[-1].a.endswith("}")
                want = "'{' \"k\": value, ... '}'"
            else:
                ok = _is_quoted(v, x)
                want = "a double-quoted literal with \" escaped"
            ctx.check(ok, "C20.attr", f"prop value of kind {k} -> {want}", where, f"{k} -> {got}{cond}",
                      f"a prop value of kind {k} is written as {got}{cond}; expected {want}",
                      witness={"TRUE": "Foo(p=True)", "LIST": "Foo(p=[True, 1])"}.get(k))
    ctx.require({"NONE", "TRUE", "INT", "LIST", "DICT", "STR", "TAG"} <= seen, "_serialize_attr table incomplete")


def _argmap(params: List[str], args: Any, kwargs: Any) -> Dict[str, Any]:
    """parameter name -> argument of one call (positional then keyword)."""
    out: Dict[str, Any] = {}
    for p_, a_ in zip(params, args or []):
        out[p_] = a_
    for k_, a_ in (kwargs or {}).items():
        out[k_] = a_
    return out


def render_table(ctx: Ctx, I: Interp) -> None:
    """_render_react_js per kind of node, and its two loops (props, children)."""
    prog = ctx.prog
    where = f"{JSX}:_render_react_js"
    fn = prog.function(JSX, "_render_react_js")
    ps = [a.arg for a in fn.args.args + fn.args.kwonlyargs]
    ctx.require(len(ps) == 3 and not fn.args.vararg and not fn.args.kwarg, "_render_react_js signature changed")

    def mk_for(kinds: Any):
        def mk(run: Any):
            x = SObj("x", set(kinds))
            ind, eol = SInt("indent"), SObj("eol", {"STR"})
            run.__dict__["o"] = (x, ind, eol)
            return ({ps[0]: x, ps[1]: ind, ps[2]: eol}, None)
        return mk

    cfg = Config()
    cfg.opaque_all = True
    cfg.coarse_counts = True
    seen = set()
    n_loop_paths = 0
    for l in I.run_function(JSX, "_render_react_js", mk_for(ANY_VALUE_KINDS | {"JSXEXPR", "META", "HTMLDEP"}), cfg):
        x = l.run.__dict__["o"][0]
        v = l.value
        frags = [f for f in v.frags if f.kind != "REP"] if isinstance(v, SStr) else None
        for k in sorted(x.kinds):
            if k in META_KINDS:
                seen.add(k)
                ctx.check(l.kind == "return" and (v == "" or (isinstance(v, SStr) and not v.frags)), "C20.meta", f"a {k} node contributes no JavaScript", where,
                          f"{k} -> {short(v)}", f"a metadata node of kind {k} is written into the React expression as {short(v)}")
            elif k in ("STR", "JSXEXPR"):
                seen.add(k)
                q = SStr(frags) if frags is not None else None
                ctx.check(l.kind == "return" and q is not None and _is_quoted(q, x), "C20.js", f"a {k} child is written as a double-quoted literal with \" escaped", where,
                          f"{k} -> {short(v)}", f"a string child is written as {short(v)}: a double quote inside it ends the JavaScript literal early",
                          witness='Foo(\'say "hi"\')')
            elif k in ("TAG", "JSXTAG"):
                seen.add(k)
                ok = l.kind == "return" and frags is not None and len(frags) >= 2 and frags[0].kind == "LIT" and str(frags[0].a).startswith("React.createElement(")
                nm = None
                if ok:
                    for i, f in enumerate(frags):
                        if f.kind == "OF" and isinstance(f.a, tuple) and str(f.a[1]).endswith(".name") and not f.c:
                            nm = i
                            break
                    ok = nm is not None and nm >= 1 and nm + 1 < len(frags) and frags[nm - 1].kind == "LIT" and frags[nm + 1].kind == "LIT"
                if ok:
                    before, after = str(frags[nm - 1].a), str(frags[nm + 1].a)
                    quoted = before.endswith("'") and after.startswith("'")
                    bare = not before.endswith(("'", '"')) and not after.startswith(("'", '"'))
                    ok = quoted if k == "TAG" else bare
                ctx.check(bool(ok), "C20.js", f"a {k} node becomes React.createElement({'<quoted tag name>' if k == 'TAG' else '<component name>'}, ...)", where,
                          f"{k} -> {short(v)[:160]}", f"a {k} node is written as {short(v)[:120]}: the element name is not "
                          f"{'a quoted HTML tag name' if k == 'TAG' else 'the bare component identifier'}",
                          witness="Foo(div())" if k == "TAG" else "Foo(Bar())")
                if l.kind == "return" and isinstance(v, SStr):
                    loops = [f.a for f in v.frags if f.kind == "LOOP"]
                    nonempty = {a[1]: val for a, val in l.atoms if isinstance(a, tuple) and a[0] == "len-cmp" and a[2] == "==" and a[3] == 0}
                    if any(val is False for val in nonempty.values()):
                        n_loop_paths += 1
    ctx.require({"META", "STR", "TAG", "JSXTAG"} <= seen, "_render_react_js table incomplete")
    # the two loops: one generic iteration each
    found = set()
    # every loop reached while rendering a tag / component, in the function itself or in a helper a refactoring extracted
    keys: List[Any] = []
    cfgk = Config()
    cfgk.opaque_all = True
    cfgk.coarse_counts = True
    cfgk.loop_effects = False
    try:
        for lk in I.run_function(JSX, "_render_react_js", mk_for({"JSXTAG", "TAG"}), cfgk):
            for rk in lk.run.loops:
                k_ = rk.__dict__.get("loop_key")
                if k_ is not None and k_ not in keys:
                    keys.append(k_)
    except Unmodelled:
        keys = []
    for k_ in [("_render_react_js", i_) for i_ in range(4)]:
        if k_ not in keys:
            keys.append(k_)
    for key_ in keys:
        cfg2 = Config()
        cfg2.opaque_all = True
        cfg2.coarse_counts = True
        cfg2.stop_at_loop = key_
        any_rec = False
        for l in I.run_function(JSX, "_render_react_js", mk_for({"JSXTAG", "TAG"}), cfg2):
            rec = getattr(l.run, "stop_loop_record", None)
            if rec is None:
                continue
            any_rec = True
            x, ind, eol = l.run.__dict__["o"]
            it = rec.iter_value
            el = rec.__dict__.get("element")
            start = rec.__dict__.get("body_effect_start", 0)
            calls = [e for e in l.effects[start:] if e.kind == "call" and isinstance(e.target, SFunc)]
            d = getattr(it, "iter_descr", None)
            if d is not None and d[0] == "items" and isinstance(d[1], SObj) and d[1].meta.get("attr_of", (None, None))[0] is x:
                found.add("props")
                val = el.items[1] if isinstance(el, SList) and len(el.items) == 2 else None
                ser = [c for c in calls if c.target.qual in ("_serialize_attr", "_serialize_style_attr")]
                style = any(str(lbl) == "== 'style'" for _, lbl in l.atoms)
                ok = len(ser) == 1 and ser[0].value and ser[0].value[0] is val and (ser[0].target.qual == "_serialize_style_attr") == style
                ctx.check(bool(ok) and l.kind in ("fall", "continue"), "C20.js", f"each prop value is serialised once ({'style' if style else 'other'} prop)", where,
                          f"prop iteration ({'style' if style else 'non-style'}): {[c.target.qual for c in ser]} on {[short(c.value[0]) for c in ser if c.value]} -> {l.kind}",
                          "a prop is not written exactly once through _serialize_attr (or _serialize_style_attr for style)",
                          witness="Foo(a=1, style='color:red')")
            elif isinstance(it, SObj) and it.meta.get("attr_of", (None, None))[0] is x and it.meta["attr_of"][1] == "children":
                found.add("children")
                rr = [c for c in calls if c.target.qual == "_render_react_js"]
                if isinstance(el, SObj) and el.kinds and el.kinds <= META_KINDS and not rr and l.kind in ("fall", "continue"):
                    ctx.ok("C20.meta", "a metadata child is skipped (it contributes no JavaScript)")
                    continue
                am = _argmap(ps, rr[0].value, (rr[0].extra or {}).get("kwargs")) if len(rr) == 1 else {}
                ok = len(rr) == 1 and am.get(ps[0]) is el and l.kind in ("fall", "continue")
                deeper = ok and am.get(ps[2]) is eol
                ctx.check(bool(ok and deeper), "C20.js", "each child is rendered once, in order, by a recursive call", where,
                          f"child iteration: {[short(a) for c in rr for a in c.value]} -> {l.kind}",
                          "a child of a tag/component is not rendered exactly once by the recursive call: children are dropped, duplicated or cut short",
                          witness="Foo('a', div('b'), 'c')")
    found_loops = set(found)
    found_comp: set = set()
    if found != {"props", "children"}:
        # the child / prop loop written as a comprehension: [_render_react_js(c, indent + 1, eol) for c in x.children if ...]
        cfg3 = Config()
        cfg3.opaque_all = True
        cfg3.coarse_counts = True
        for l in I.run_function(JSX, "_render_react_js", mk_for({"JSXTAG", "TAG"}), cfg3):
            x, ind, eol = l.run.__dict__["o"]
            maps = []
            seen_ids = set()

            def _scan(v: Any, depth: int = 0) -> None:
                if depth > 6 or id(v) in seen_ids:
                    return
                seen_ids.add(id(v))
                if isinstance(v, SList):
                    if v.mode == "map":
                        maps.append(v)
                        _scan(v.base, depth + 1)
                        _scan(v.elt, depth + 1)
                    for i_ in v.items:
                        _scan(i_, depth + 1)
                if isinstance(v, SStr):
                    for f_ in v.frags:
                        if isinstance(f_.b, dict):
                            for vv in f_.b.values():
                                _scan(vv, depth + 1)
            _scan(l.value)
            for e_ in l.effects:
                for vv in ([e_.value] if not isinstance(e_.value, list) else e_.value):
                    _scan(vv)
            for v_ in (getattr(l, "env", None) or {}).values():
                _scan(v_)
            for m_ in maps:
                b_ = m_.base
                d_ = getattr(b_, "iter_descr", None)
                if "props" not in found_loops and d_ is not None and d_[0] == "items" and isinstance(d_[1], SObj) and d_[1].meta.get("attr_of", (None, None))[0] is x \
                        and d_[1].meta["attr_of"][1] == "attrs":
                    # [f'"{k}": {ser(v)}' for k, v in x.attrs.items()]
                    found_comp.add("props")
                    val = m_.var.items[1] if isinstance(m_.var, SList) and len(m_.var.items) == 2 else None
                    ops = [f_ for f_ in (m_.elt.frags if isinstance(m_.elt, SStr) else []) if f_.kind == "OP" and isinstance(f_.b, dict)]
                    ser = [f_ for f_ in ops if str(f_.a[1]) in ("_serialize_attr", "_serialize_style_attr")]
                    style = any(str(lbl) == "== 'style'" for _, lbl in l.atoms)
                    ok = len(ser) == 1 and (ser[0].b.get("args") or [None])[0] is val and val is not None and (str(ser[0].a[1]) == "_serialize_style_attr") == style \
                        and not m_.cond
                    ctx.check(bool(ok), "C20.js", f"each prop value is serialised once ({'style' if style else 'other'} prop)", where,
                              f"prop comprehension ({'style' if style else 'non-style'}): {[str(f_.a[1]) for f_ in ser]} in {short(m_.elt)}",
                              "a prop is not written exactly once through _serialize_attr (or _serialize_style_attr for style)",
                              witness="Foo(a=1, style='color:red')")
                    continue
                if "children" in found_loops:
                    continue
                if not (isinstance(b_, SObj) and b_.meta.get("attr_of", (None, None))[0] is x and b_.meta["attr_of"][1] == "children"):
                    continue
                found_comp.add("children")
                c_ = m_.elt.__dict__.get("call") if isinstance(m_.elt, SOpaque) else (m_.elt.meta.get("call") if isinstance(m_.elt, SObj) else None)
                if c_ is None and isinstance(m_.elt, SStr) and len(m_.elt.frags) == 1 and m_.elt.frags[0].kind == "OP" and isinstance(m_.elt.frags[0].b, dict):
                    c_ = dict(m_.elt.frags[0].b, func=type("F", (), {"qual": str(m_.elt.frags[0].a[1])})())
                args_ = (c_ or {}).get("args") or []
                am_ = _argmap(ps, args_, (c_ or {}).get("kwargs"))
                ok = c_ is not None and getattr(c_.get("func"), "qual", "") == "_render_react_js" and am_.get(ps[0]) is m_.var and am_.get(ps[2]) is eol
                ctx.check(bool(ok), "C20.js", "each child is rendered once, in order, by a recursive call", where, f"children comprehension element {short(m_.elt)}",
                          "a child of a tag/component is not rendered exactly once by the recursive call: children are dropped, duplicated or cut short")
                pk = m_.__dict__.get("pass_kinds")
                leak = sorted(set(pk if pk is not None else META_KINDS) & set(META_KINDS))
                ctx.check(not leak, "C20.meta", "metadata children are left out of the child expressions", where, f"kinds passing the filter include {leak}",
                          f"a metadata child of kind {leak} is kept in the list of child expressions: its empty rendering is joined in with a separator "
                          f"(a stray ', ' entry in React.createElement)", witness="Foo(MetadataNode(), 'a')")
    found |= found_comp
    ctx.require(found == {"props", "children"}, f"_render_react_js loops found: {sorted(found)}")
    ctx.min_count("_render_react_js paths with props or children", n_loop_paths, 2)


def _is_list_serialisation(v: Any, x: SObj) -> bool:
    if not isinstance(v, SStr) or len(v.frags) != 3:
        return False
    a, j, b = v.frags
    if not (a.kind == "LIT" and a.a == "[" and b.kind == "LIT" and b.a == "]" and j.kind == "OP" and isinstance(j.a, tuple) and j.a[0] == "join"):
        return False
    pay = j.b or {}
    item = pay.get("item")
    over = pay.get("over")
    var = pay.get("var")
    if pay.get("cond"):
        return False
    # every element goes through _serialize_attr
    if isinstance(item, SStr) and len(item.frags) == 1 and item.frags[0].kind == "OP" and isinstance(item.frags[0].a, tuple) \
            and item.frags[0].a[:2] == ("call", "_serialize_attr"):
        args = (item.frags[0].b or {}).get("args", [])
        return bool(args) and args[0] is var
    return False


def _is_quoted(v: Any, x: SObj) -> bool:
    if not isinstance(v, SStr) or len(v.frags) != 3:
        return False
    a, m, b = v.frags
    if not (a.kind == "LIT" and a.a == '"' and b.kind == "LIT" and b.a == '"'):
        return False
    return m.kind == "OP" and isinstance(m.a, tuple) and m.a[0] == "str.replace" and m.a[1] == '"' and m.a[2] == '\\"' and len(m.a) == 3


def _derives_from(v: Any, src: Any, depth: int = 0, seen: Any = None) -> bool:
    """Is `src` among the values that v was computed from (comprehension bases, splats, call arguments)?"""
    seen = set() if seen is None else seen
    if v is src:
        return True
    if depth > 10 or id(v) in seen or isinstance(v, (str, int, float, bool, type(None))):
        return False
    seen.add(id(v))
    subs: List[Any] = []
    if isinstance(v, SSplat):
        subs.append(v.value)
    elif isinstance(v, SList):
        subs += list(v.items or []) + [v.base, v.__dict__.get("entry")]
    elif isinstance(v, SObj):
        subs += [v.meta.get(k) for k in ("attr_of", "item_of", "copy_of", "list_of")] + [v.elem_of]
        c = v.meta.get("call")
        if isinstance(c, dict):
            subs += [c.get("recv")] + list(c.get("args") or []) + list((c.get("kwargs") or {}).values())
    elif isinstance(v, SNew):
        subs += list(v.args) + list(v.star) + list(v.dstar) + list(v.kwargs.values())
    elif isinstance(v, SDict):
        subs += list(v.items.values()) + list(v.dstar or [])
    elif isinstance(v, (list, tuple)):
        subs += list(v)
    elif isinstance(v, dict):
        subs += list(v.values())
    return any(_derives_from(x, src, depth + 1, seen) for x in subs if x is not None)


def _factory_allowlist_kinds(ctx: Ctx) -> set:
    """In which form jsx_tag_create hands its allow-list to JSXTag: as given (a list), or converted (tuple(...), frozenset(...)) -
    the constructor's check has to work for that form too."""
    import ast
    try:
        fn = ctx.prog.function(JSX, "jsx_tag_create")
    except Exception:
        return set()
    binds: Dict[str, ast.expr] = {}
    for n in ast.walk(fn):
        if isinstance(n, ast.Assign) and len(n.targets) == 1 and isinstance(n.targets[0], ast.Name):
            binds[n.targets[0].id] = n.value

    def kinds_of(e: ast.expr, depth: int = 0) -> set:
        if depth > 4:
            return set()
        if isinstance(e, ast.IfExp):
            return kinds_of(e.body, depth + 1) | kinds_of(e.orelse, depth + 1)
        if isinstance(e, ast.Call) and isinstance(e.func, ast.Name):
            return {"tuple": {"TUPLE"}, "frozenset": {"SET"}, "set": {"SET"}, "list": {"LIST"}, "sorted": {"LIST"}}.get(e.func.id, set())
        if isinstance(e, (ast.Tuple,)):
            return {"TUPLE"}
        if isinstance(e, (ast.Set, ast.SetComp)):
            return {"SET"}
        if isinstance(e, ast.Name) and e.id in binds:
            return kinds_of(binds[e.id], depth + 1)
        return set()

    out: set = set()
    for n in ast.walk(fn):
        if isinstance(n, ast.Call) and isinstance(n.func, ast.Name) and n.func.id == "JSXTag":
            for kw in n.keywords:
                if kw.arg == "allowedProps":
                    out |= kinds_of(kw.value)
    return out


def memoised_serialisers(ctx: Ctx) -> None:
    """A function on the conversion path that is memoised with an untyped cache answers for True what it computed for 1 / 1.0
    (cache keys compare with ==): the JavaScript written for a prop then depends on what was converted before."""
    from .. import nondet
    idx = nondet.index_functions(ctx.prog)
    roots = [f"{JSX}:{q}" for q in ENTRIES if f"{JSX}:{q}" in idx]
    ctx.require(len(roots) >= 1, "JSXTag conversion anchors vanished")
    n = 0
    for q in nondet.closure(ctx.prog, idx, roots):
        f = idx[q]
        if f.mod.name != JSX:
            continue
        n += 1
        for d in nondet.cache_decorators(f):
            if d.split("(")[0].split(".")[-1] == "cached_property" or "typed=True" in d.replace(" ", ""):
                continue
            ctx.fail("C20.js", q, f"@{d}", f"`{q}` on the conversion path is memoised with @{d}: equal-but-different arguments (True / 1 / 1.0, False / 0 / 0.0) share a "
                     f"cache entry, so a boolean prop is written as a number (or the reverse) depending on what was converted earlier",
                     witness="str(Foo(a=1.0)); str(Foo(a=True))  -> a: 1.0")
    ctx.ok("C20.js", "no serialiser on the conversion path is memoised across equal-but-different arguments", functions=n)


def init_allowlist(ctx: Ctx, I: Interp) -> None:
    prog = ctx.prog
    where = f"{JSX}:JSXTag.__init__"
    fn = prog.function(JSX, "JSXTag.__init__")
    a = fn.args
    ctx.require(a.kwarg is not None and "allowedProps" in [x.arg for x in a.kwonlyargs], "JSXTag.__init__ signature changed")
    cfg = Config()
    cfg.opaque_all = True
    cfg.coarse_counts = True

    ap_kinds = {"NONE", "LIST"} | _factory_allowlist_kinds(ctx)

    def mk(run: Any):
        s = SNew(prog.jsx().classes["JSXTag"])
        kw = SDict(name="kwargs", concrete=False)
        ap = SObj("allowedProps", ap_kinds)
        run.__dict__["o"] = (s, kw, ap)
        b = {a.args[0].arg: s, a.args[1].arg: SObj("_name", {"STR"}), a.vararg.arg: (), "allowedProps": ap, a.kwarg.arg: kw}
        return (b, s)

    n_reject = 0
    reject_kinds: set = set()
    for l in I.run_function(JSX, "JSXTag.__init__", mk, cfg):
        s, kw, ap = l.run.__dict__["o"]
        stores = [i for i, e in enumerate(l.effects) if e.kind == "store_attr" and e.target is s and not e.__dict__.get("in_loop")]
        loops = [i for i, e in enumerate(l.effects) if e.kind == "loop" and _iter_base(e.value) is kw]
        member = [(x, v) for x, v in l.atoms if isinstance(x, tuple) and x[0] == "in" and (l.run.atom_info.get(x) or {}).get("container") is ap]
        if l.kind == "raise":
            if member and member[0][1] is False:
                n_reject += 1
                reject_kinds.update(ap.kinds)
                ctx.check(not stores and getattr(l.value, "cls_name", "") == "NotImplementedError", "C20.allow", "a prop outside the allow-list is rejected before any field is set", where,
                          f"raise {getattr(l.value, 'cls_name', '?')} after {len(stores)} stores", "a disallowed prop is rejected only after the component has been partly built")
            continue
        if ap.kinds <= {"LIST", "TUPLE", "SET"} and l.run.path.memo.get(("nonempty", ap.uid), l.run.path.memo.get(("truthy", ap.uid))) == 0:
            ctx.check(bool(loops) and (not stores or loops[0] < stores[0]), "C20.allow", "with an allow-list, every keyword is checked before the fields are assigned", where,
                      f"loop at {loops[:1]}, first store at {stores[:1]}", "the allow-list check does not precede construction (or is missing)",
                      witness="jsx_tag_create('Foo', allowedProps=['a'])(b=1)")
    ctx.check(n_reject >= 1, "C20.allow", "a keyword not in allowedProps raises", where, "no rejecting path", "props outside the declared allow-list are accepted",
              witness="jsx_tag_create('Foo', allowedProps=['a'])(b=1)")
    for k_ in sorted(ap_kinds - {"NONE", "LIST"}):
        ctx.check(k_ in reject_kinds, "C20.allow", f"the allow-list is enforced in the form jsx_tag_create passes it ({k_.lower()})", where,
                  f"allowedProps as {k_.lower()}: rejecting path {'found' if k_ in reject_kinds else 'missing'}",
                  f"jsx_tag_create hands its allow-list to JSXTag as a {k_.lower()}, and for that form JSXTag.__init__ has no path that rejects an unknown prop: "
                  f"components made by the factory accept every prop", witness="jsx_tag_create('Card', allowedProps=['title'])(colour='red')")
    # the props are the keywords that were checked: nothing taken from the positional arguments ends up in .attrs
    def mk2(run: Any):
        s = SNew(prog.jsx().classes["JSXTag"])
        kw = SDict(name="kwargs", concrete=False)
        ap = SObj("allowedProps", {"NONE", "LIST"})
        pos = SObj(a.vararg.arg, {"TUPLE"})
        run.__dict__["o"] = (s, kw, pos)
        return ({a.args[0].arg: s, a.args[1].arg: SObj("_name", {"STR"}), a.vararg.arg: pos, "allowedProps": ap, a.kwarg.arg: kw}, s)

    if a.vararg is not None:
        bad: List[str] = []
        n2 = 0
        try:
            leaves2 = I.run_function(JSX, "JSXTag.__init__", mk2, cfg)
        except Unmodelled:
            leaves2 = []
        for l in leaves2:
            s, kw, pos = l.run.__dict__["o"]
            if l.kind == "raise":
                continue
            n2 += 1
            at = s.attrs.get("attrs")
            for e in l.effects:
                tgt = e.key if e.kind == "call" else e.target
                if e.kind in ("call", "mutcall", "basecall", "store_item") and at is not None and (tgt is at or e.target is at):
                    vals = list(e.value) if isinstance(e.value, (list, tuple)) else [e.value]
                    if any(_derives_from(x, pos) for x in vals):
                        bad.append(f"{short(e.target) if e.kind == 'call' else e.kind} {e.key if e.kind != 'call' else ''}".strip())
            if isinstance(at, SNew) and any(_derives_from(x, pos) for x in list(at.args) + list(at.star) + list(at.dstar) + list(at.kwargs.values())):
                bad.append("constructor of .attrs")
        if n2:
            ctx.check(not bad, "C20.allow", "nothing from the positional arguments is stored as a prop (props are exactly the checked keywords)", where,
                      f"props from positional arguments: {sorted(set(bad))}" if bad else "attrs built from **kwargs only",
                      f"values taken from the positional arguments are written into .attrs ({sorted(set(bad))}): such props are never compared with allowedProps",
                      witness="jsx_tag_create('Foo', allowedProps=['a'])({'b': 1})")


def prop_names(ctx: Ctx, I: Interp) -> None:
    """Every prop is stored once under its normalised name: the name rule itself, item assignment, and the update path."""
    from .c15 import name_pipeline, setitem_key
    prog = ctx.prog
    name_pipeline(ctx, rule="C20.name", mod=JSX, qual="JSXTagAttrDict._normalize_attr_name")
    setitem_key(ctx, "C20.name", mod=JSX, cls="JSXTagAttrDict", value_as_given=True)
    # _update(mapping): each item goes, value unchanged, under its normalised name into the dict that is merged in
    q = "JSXTagAttrDict._update"
    if not prog.has_function(JSX, q):
        return          # no separate helper: update() is covered through the constructor tables
    fn = prog.function(JSX, q)
    where = f"{JSX}:{q}"
    ps = [a.arg for a in fn.args.posonlyargs + fn.args.args]
    many = len(ps) == 1 and fn.args.vararg is not None and not fn.args.kwarg      # _update(self, *mappings): one mapping after the other
    if many:
        ps = ps + [fn.args.vararg.arg]
    ctx.require(len(ps) == 2, f"{q} signature changed")
    from ..loopbuilt import iter_base
    n = 0
    for idx in range(3):
        cfg = Config()
        cfg.opaque_all = True
        cfg.stop_at_loop = (q, idx)
        any_rec = False

        def mk(run: Any):
            s_ = SObj("self", {"JSXATTRDICT"})
            m_ = SObj("m", {"DICT"}) if not many else SObj("mappings", {"TUPLE"})
            if many:
                m_.meta["elem_kinds"] = frozenset({"DICT"})
            run.__dict__["o"] = (s_, m_)
            return ({ps[0]: s_, ps[1]: m_}, s_)

        for l in I.run_function(JSX, q, mk, cfg):
            rec = getattr(l.run, "stop_loop_record", None)
            if rec is None:
                continue
            any_rec = True
            s_, m_ = l.run.__dict__["o"]
            base_ = iter_base(rec.iter_value)
            one_of_many = many and isinstance(base_, SObj) and base_.elem_of is not None and base_.elem_of[0] is m_
            if base_ is not m_ and not one_of_many:
                continue
            if many and base_ is m_:
                continue        # the outer loop over the mappings themselves
            el = rec.__dict__.get("element")
            if not (isinstance(el, SList) and len(el.items) == 2):
                continue
            k_, v_ = el.items
            start = rec.__dict__.get("body_effect_start", 0)
            for e in l.effects[start:]:
                if e.kind == "store_item" or (e.kind == "basecall" and str(e.key).endswith("__setitem__")) \
                        or (e.kind == "call" and getattr(e.target, "qual", "").endswith("__setitem__")):
                    key, val = (e.key, e.value) if e.kind == "store_item" else (e.value[0], e.value[1]) if e.value and len(e.value) == 2 else (None, None)
                    n += 1
                    through_setitem = e.kind == "call"      # self[k] = v: the class's own __setitem__ normalises the name
                    ctx.check(key is not k_ or through_setitem, "C20.name", "update() stores each prop under its normalised name", where, f"stores under {short(key)}",
                              f"update()/the constructor store a prop under the name as given ({short(key)}), not under its normalised form",
                              witness="Foo(class_='a')")
                    ctx.check(val is v_, "C20.name", "update() stores each prop value as given", where, f"stores {short(val)}",
                              f"update()/the constructor store {short(val)} instead of the prop value")
        if not any_rec:
            break
    if n == 0:
        # the same written as a comprehension: {normalise(k): v for k, v in m.items()}
        cfg = Config()
        cfg.opaque_all = True

        def mk2(run: Any):
            s_ = SObj("self", {"JSXATTRDICT"})
            m_ = SObj("m", {"DICT"})
            run.__dict__["o"] = (s_, m_)
            return ({ps[0]: s_, ps[1]: m_}, s_)

        for l in I.run_function(JSX, q, mk2, cfg):
            s_, m_ = l.run.__dict__["o"]
            pool = list((getattr(l, "env", None) or {}).values())
            for e in l.effects:
                pool += list(e.value) if isinstance(e.value, list) else [e.value]
                pool += list(((e.extra or {}).get("dstar") or [])) if isinstance(e.extra, dict) else []
                pool += list(e.__dict__.get("dstar") or [])
            for d_ in pool:
                c_ = d_.__dict__.get("comp") if isinstance(d_, SDict) else None
                if c_ is None or iter_base(c_["iter"]) is not m_ or not (isinstance(c_["var"], SList) and len(c_["var"].items) == 2):
                    continue
                k_, v_ = c_["var"].items
                n += 1
                ctx.check(c_["key"] is not k_ and not c_["ifs"], "C20.name", "update() stores each prop under its normalised name", where,
                          f"comprehension key {short(c_['key'])} if {c_['ifs']}",
                          f"update()/the constructor store a prop under the name as given ({short(c_['key'])}), or drop some props",
                          witness="Foo(class_='a')")
                ctx.check(c_["value"] is v_, "C20.name", "update() stores each prop value as given", where, f"stores {short(c_['value'])}",
                          f"update()/the constructor store {short(c_['value'])} instead of the prop value")
                break
    ctx.min_count(f"{q} item stores", n, 1)


def _iter_base(it: Any) -> Any:
    d = getattr(it, "iter_descr", None)
    if d is not None and d[0] in ("keys", "items", "values"):
        return d[1]
    return it


def check(ctx: Ctx) -> None:
    ctx.explanation = (
        "Engine B on JSXTag.tagify/str/repr/_repr_html_ with the walker analysed under the actual visitor closure: no mutation "
        "site has a target reachable from the component (copies follow JSXTag.__copy__ as read from the source). Engine A "
        "tables: the walker visits every child of a Tag and every prop value and child of a component; the visitor expands "
        "tagifiables that are not tags/components, copies everything else that is mutable, and appends every metadata node it "
        "sees; the returned <script> Tag carries react, react-dom and *metadata_nodes, and the JavaScript is rendered from the "
        "walked copy; _serialize_attr's dispatch table per value kind (None, tags, lists element-wise through _serialize_attr, "
        "dicts, booleans before numbers, jsx/numbers verbatim, other values quoted); _render_react_js per node kind (metadata -> nothing, "
        "strings -> quoted literal with \" escaped, tags -> React.createElement('name', ...), components -> React.createElement(Name, ...)) "
        "and one generic iteration of its prop loop and its child loop (each prop serialised once, each child rendered once by "
        "the recursive call); the allow-list check precedes every field "
        "assignment in JSXTag.__init__; the react script files named by the folded constants exist. JavaScript well-formedness "
        "for arbitrary strings is not decided.")
    ctx.trust("copy.copy semantics", "Engine A abstract semantics")
    ctx.assume("user-supplied tagify()/_repr_html_() are pure", "typing.cast claims are correct")
    I = Interp(ctx.prog)
    purity(ctx)
    walker_coverage(ctx, I)
    visitor_table(ctx, I)
    react_files(ctx)
    serialize_table(ctx, I)
    render_table(ctx, I)
    init_allowlist(ctx, I)
    memoised_serialisers(ctx)
    prop_names(ctx, I)
    # children however they were added: append / extend forward to the child list
    from .c14 import _delegates
    for meth in ("append", "extend"):
        _delegates(ctx, I, meth, cls="JSXTag", mod=JSX, kind="JSXTAG", field="children", rule="C20.children")
