"""C05 - no whitespace is ever injected into inline content (DESIGN 4, C05-C07)."""

from __future__ import annotations

from ..layout import META_KINDS
from ..rendercheck import (TG, TL, describe, flat_tags, fmt, frames, has_ws, model, preconditions, walk, _state_text)
from typing import Any

from ..report import Ctx, SharedCtx


class _FlagWrites(SharedCtx):
    """C08's purity obligations, of which C05 needs one clause: no rendering / document operation writes the whitespace flag
    of a tag that existed before the call (the flag the user gave is the one the layout rules are stated for)."""

    def fail(self, rule: str, where: str, construct: Any, message: str, witness: Any = None, path: Any = None, line: Any = None) -> None:
        if rule == "C08.pure" and "add_ws" in str(construct).split("=")[0]:
            self._ctx.fail("C05.flag", where, construct, message, witness, path, line)
        else:
            self.__dict__["other"] = self.__dict__.get("other", 0) + 1

    def ok(self, rule: str, what: str, **detail: Any) -> None:
        pass

    def count(self, *a: Any, **k: Any) -> None:
        pass

    def min_count(self, *a: Any, **k: Any) -> None:
        pass


def flag_is_readonly(ctx: Ctx) -> None:
    from .c08 import purity
    n0 = len(ctx.findings)
    O = purity(_FlagWrites(ctx, lambda r: r), True)       # type: ignore[arg-type]
    if len(ctx.findings) == n0:
        ctx.ok("C05.flag", "no read-only operation (render, str, tagify, document render/save) writes Tag.add_ws of a pre-existing tag",
               functions=len(O.analysed))


def rebuilt_tags_keep_flag(ctx: Ctx) -> None:
    """A tag built from another tag's name (Tag(x.name, ...)) is that tag's stand-in in the output: it must be given x's
    whitespace flag, because the constructor's default is True (a rebuilt inline tag would turn into a block tag)."""
    import ast
    from ..frontend import iter_functions
    n = 0
    for mod in ctx.prog.modules.values():
        if not mod.name.startswith("htmltools") or mod.name in ("htmltools.tags", "htmltools.svg"):
            continue
        for qual, fn in iter_functions(mod):
            for c in ast.walk(fn):
                if not (isinstance(c, ast.Call) and isinstance(c.func, ast.Name) and c.func.id == "Tag" and c.args):
                    continue
                a0 = c.args[0]
                if not (isinstance(a0, ast.Attribute) and a0.attr == "name"):
                    continue
                src = ast.unparse(a0.value)
                if ctx.prog.get_class("Tag", mod) is None:
                    continue
                n += 1
                kw = {k.arg: k.value for k in c.keywords if k.arg}
                v = kw.get("_add_ws")
                ok = v is not None and isinstance(v, ast.Attribute) and v.attr == "add_ws" and ast.unparse(v.value) == src
                ok = ok or any(k.arg is None for k in c.keywords)      # **fields: not decided here
                ctx.check(ok, "C05.flag", f"a tag rebuilt from `{src}` is given {src}.add_ws", f"{mod.name}:{qual}", f"Tag({src}.name, ...)",
                          f"{qual} rebuilds a tag as Tag({src}.name, ...) without `_add_ws={src}.add_ws`: the stand-in gets the constructor default True, so an inline "
                          f"tag (span, noscript, template ...) is laid out as a block tag wherever this copy is rendered", line=c.lineno,
                          witness="HTMLDependency('a', '1', head=TagList(tags.span('x'), tags.span('y')))")
    ctx.count("tags rebuilt from another tag's name", n)


def check(ctx: Ctx) -> None:
    ctx.explanation = (
        "Over the sibling transducer and element frames extracted by Engine A from the current source: (a) in every "
        "reachable state, a non-block child that follows a non-block sibling (or opens a non-block parent) emits no "
        "EOL/INDENT token and a tag child is rendered flat (indent 0, empty eol); (b) the frame of a tag without "
        "whitespace contains no layout token besides the caller's leading indent and passes add_ws=False to its "
        "children; (c) any layout token is adjacent to a block boundary (previous sibling or current child is a block "
        "tag, or first child of a whitespace-enabled parent). Block-inside-inline nestings are included. By induction "
        "over the subtree this gives the statement for all trees; decides token structure, not bytes.")
    ctx.trust("Engine A abstract semantics (sa/interp.py, sa/eval_*.py)")
    m = model(ctx)
    preconditions(ctx, m)
    # str()/render() lay out the tagified copy: the copy must carry the whitespace flag of the original
    from ..interp import Interp
    from .c08 import tag_tagify_shape
    tag_tagify_shape(ctx, Interp(ctx.prog), rule="C05.tagify", fields={"add_ws"})
    flag_is_readonly(ctx)
    rebuilt_tags_keep_flag(ctx)
    n = 0
    for step in walk(m, block_in_inline=True):
        ch, prev, p = step["child"], step["prev"], step["params"]
        if ch.kind in META_KINDS or step["spec"]["outcome"] == "raise":
            continue
        n += 1
        what = describe(step)
        prev_block = prev == ("TAG", True)
        inline_ctx = (prev is not None and not prev_block) or (prev is None and not p["add_ws"])
        for r in step["rows"]:
            if r.outcome == "raise":
                continue
            toks = r.tokens
            if inline_ctx and not ch.block:
                ctx.check(not has_ws(toks) and flat_tags(toks), "C05.a", what, TL, what,
                          f"whitespace is injected between non-block siblings / inside inline content: emits {fmt(toks)}",
                          witness=f"state {_state_text(step)}")
            justified = prev_block or ch.block or (prev is None and p["add_ws"])
            if has_ws(toks):
                ctx.check(justified, "C05.c", what + " (layout token adjacent to a block boundary)", TL, what,
                          f"layout whitespace {fmt(toks)} is emitted although neither neighbour is a block tag",
                          witness=f"state {_state_text(step)}")
    ctx.count("transducer steps examined", n)
    # the content token of a child is the child's content and nothing else: an operation applied to the text on its way out (a
    # hanging indent for multi-line text, a re-wrap) puts whitespace inside inline content. Whether the content is escaped is
    # C02 / C04's business and plays no part here.
    from ..rendercheck import strip_names
    nt = 0
    for step in walk(m, block_in_inline=True):
        ch = step["child"]
        if ch.kind in META_KINDS or step["spec"]["outcome"] == "raise":
            continue
        if any(t[0] in ("OP", "CALL", "NONSTRING") for t in strip_names(step["spec"]["tokens"])):
            continue
        what = describe(step)
        for r in step["rows"]:
            if r.outcome == "raise" or not r.acc_ok:
                continue
            nt += 1
            ops = [t for t in strip_names(r.tokens) if t[0] in ("OP", "CALL", "NONSTRING")]
            ctx.check(not ops, "C05.text", what + " [content emitted as it is]", TL, what + " [content]",
                      f"the child's content passes through a further operation on its way into the output ({fmt(r.tokens)}): characters "
                      f"(indentation, line breaks) can be inserted inside inline content", witness=f"state {_state_text(step)}")
    ctx.count("content tokens examined", nt)
    nf = 0
    for sc, hits in frames(m):
        ctx.require(bool(hits), f"no path of Tag.get_html_string covers frame scenario {sc!r}")
        one_line = sc.n_vis == 0 or (sc.n_vis == 1 and sc.single_kind in ("STR", "JSXEXPR", "HTMLSTR"))
        for leaf, toks, free in hits:
            if toks and toks[0][0] in ("RAISE",):
                continue
            # the leading indentation belongs to the caller's line (how much of it is C06's business)
            body = toks[1:] if toks and toks[0][0] == "INDENT" else toks
            if not sc.add_ws or one_line:
                nf += 1
                extra = f" (under extra condition {free[0][0]})" if free else ""
                ctx.check(not has_ws(body), "C05.b", f"frame {sc!r} has no layout token besides the leading indent", TG,
                          f"frame: {sc!r}", f"a tag {'without whitespace' if not sc.add_ws else 'kept on one line'} emits layout whitespace: {fmt(toks)}{extra}")
                for t in toks:
                    if t[0] == "CHILDREN" and not sc.add_ws:
                        ctx.check(t[3] == ("const", False), "C05.b", f"frame {sc!r} renders its children with add_ws=False",
                                  TG, f"frame: {sc!r} children call",
                                  f"an inline tag renders its children with add_ws={t[3]}: the first child would be put on a new line / indented{extra}")
    ctx.count("frame paths examined", nf)


def thorough(ctx: Ctx) -> None:
    """Composed model on all abstract trees (including block-inside-inline): a block-free subtree renders with no layout token."""
    from ..compose import Composer, enumerate_trees, has_block
    m = model(ctx)
    comp = Composer(m)
    n = bad = 0
    for kind, t in enumerate_trees(3, c06_only=False):
        if kind != "tag" or has_block(t):
            continue
        for indent, eol_on in ((0, True), (3, True)):
            n += 1
            toks = comp.render_tag(t, indent, eol_on, True)
            body = toks[1:] if toks and toks[0][0] == "IND" else toks
            if any(x[0] in ("IND", "EOL") for x in body):
                bad += 1
                if bad <= 3:
                    ctx.fail("C05.compose", TG, f"composed rendering of the block-free subtree {t!r}", f"layout tokens inside inline content: {toks}")
    ctx.count("block-free composed subtrees", n)
    if not bad:
        ctx.ok("C05.compose", f"{n} block-free composed subtrees render as the plain concatenation of tags and content")
