"""C05 - no whitespace is ever injected into inline content (DESIGN 4, C05-C07)."""

from __future__ import annotations

from ..layout import META_KINDS
from ..rendercheck import (TG, TL, describe, flat_tags, fmt, frames, has_ws, model, preconditions, walk, _state_text)
from ..report import Ctx


def check(ctx: Ctx) -> None:
    ctx.explanation = (
        "Over the sibling transducer and element frames extracted by Engine A from the current source: (a) in every "
        "reachable state, a non-block child that follows a non-block sibling (or opens a non-block parent) emits no "
        "EOL/INDENT token and a tag child is rendered flat (indent 0, empty eol); (b) the frame of a tag without "
        "whitespace contains no layout token besides the caller's leading indent and passes add_ws=False to its "
        "children; (c) any layout token is adjacent to a block boundary (previous sibling or current child is a block "
        "tag, or first child of a whitespace-enabled parent). Block-inside-inline nestings are included. By induction "
        "over the subtree this gives the statement for all trees; decides token structure, not bytes.")
    ctx.trust("Engine A abstract semantics (sa/interp.py, sa/eval_*.py)")
    m = model(ctx)
    preconditions(ctx, m)
    # str()/render() lay out the tagified copy: the copy must carry the whitespace flag of the original
    from ..interp import Interp
    from .c08 import tag_tagify_shape
    tag_tagify_shape(ctx, Interp(ctx.prog), rule="C05.tagify", fields={"add_ws"})
    n = 0
    for step in walk(m, block_in_inline=True):
        ch, prev, p = step["child"], step["prev"], step["params"]
        if ch.kind in META_KINDS or step["spec"]["outcome"] == "raise":
            continue
        n += 1
        what = describe(step)
        prev_block = prev == ("TAG", True)
        inline_ctx = (prev is not None and not prev_block) or (prev is None and not p["add_ws"])
        for r in step["rows"]:
            if r.outcome == "raise":
                continue
            toks = r.tokens
            if inline_ctx and not ch.block:
                ctx.check(not has_ws(toks) and flat_tags(toks), "C05.a", what, TL, what,
                          f"whitespace is injected between non-block siblings / inside inline content: emits {fmt(toks)}",
                          witness=f"state {_state_text(step)}")
            justified = prev_block or ch.block or (prev is None and p["add_ws"])
            if has_ws(toks):
                ctx.check(justified, "C05.c", what + " (layout token adjacent to a block boundary)", TL, what,
                          f"layout whitespace {fmt(toks)} is emitted although neither neighbour is a block tag",
                          witness=f"state {_state_text(step)}")
    ctx.count("transducer steps examined", n)
    nf = 0
    for sc, hits in frames(m):
        ctx.require(bool(hits), f"no path of Tag.get_html_string covers frame scenario {sc!r}")
        one_line = sc.n_vis == 0 or (sc.n_vis == 1 and sc.single_kind in ("STR", "JSXEXPR", "HTMLSTR"))
        for leaf, toks, free in hits:
            if toks and toks[0][0] in ("RAISE",):
                continue
            # the leading indentation belongs to the caller's line (how much of it is C06's business)
            body = toks[1:] if toks and toks[0][0] == "INDENT" else toks
            if not sc.add_ws or one_line:
                nf += 1
                extra = f" (under extra condition {free[0][0]})" if free else ""
                ctx.check(not has_ws(body), "C05.b", f"frame {sc!r} has no layout token besides the leading indent", TG,
                          f"frame: {sc!r}", f"a tag {'without whitespace' if not sc.add_ws else 'kept on one line'} emits layout whitespace: {fmt(toks)}{extra}")
                for t in toks:
                    if t[0] == "CHILDREN" and not sc.add_ws:
                        ctx.check(t[3] == ("const", False), "C05.b", f"frame {sc!r} renders its children with add_ws=False",
                                  TG, f"frame: {sc!r} children call",
                                  f"an inline tag renders its children with add_ws={t[3]}: the first child would be put on a new line / indented{extra}")
    ctx.count("frame paths examined", nf)


def thorough(ctx: Ctx) -> None:
    """Composed model on all abstract trees (including block-inside-inline): a block-free subtree renders with no layout token."""
    from ..compose import Composer, enumerate_trees, has_block
    m = model(ctx)
    comp = Composer(m)
    n = bad = 0
    for kind, t in enumerate_trees(3, c06_only=False):
        if kind != "tag" or has_block(t):
            continue
        for indent, eol_on in ((0, True), (3, True)):
            n += 1
            toks = comp.render_tag(t, indent, eol_on, True)
            body = toks[1:] if toks and toks[0][0] == "IND" else toks
            if any(x[0] in ("IND", "EOL") for x in body):
                bad += 1
                if bad <= 3:
                    ctx.fail("C05.compose", TG, f"composed rendering of the block-free subtree {t!r}", f"layout tokens inside inline content: {toks}")
    ctx.count("block-free composed subtrees", n)
    if not bad:
        ctx.ok("C05.compose", f"{n} block-free composed subtrees render as the plain concatenation of tags and content")
