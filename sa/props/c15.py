"""C15 - attribute names and values are normalised and merged in argument order (DESIGN 4, C15)."""

from __future__ import annotations

from typing import Any, Dict, List, Tuple

from .. import attrmodel
from ..attrmodel import UPD, ValueClass
from ..eval_expr import _K
from ..interp import Config, Interp
from ..report import Ctx
from ..strmodel import eval_atom, eval_sstr
from ..values import (ALL_KINDS, ANY_VALUE_KINDS, SBool, SDict, SList, SNew, SObj, SOpaque, SSplat, SStr, Sym, Unmodelled, short)
from .c03 import setitem_obligations, value_table_obligations

CORE = "htmltools._core"
NN = f"{CORE}:TagAttrDict._normalize_attr_name"
# raw names listed by the property (x, x_, x__, a_b, a-b) plus the boundary shapes around them
PROBES = ["x", "x_", "x__", "a_b", "a-b", "x-", "x_-", "x-_", "_x", "a_b_", "_", "__", "", "class_", "data_foo_bar", "http_equiv", "for_"]
DICT_KINDS = frozenset({"DICT", "TAGATTRDICT", "JSXATTRDICT"})


def spec_name(x: str) -> str:
    if x.endswith("_"):
        x = x[:-1]
    return x.replace("_", "-")


def _apply_name(ctx: Ctx, paths: Any, w: str) -> str:
    hits = []
    for p in paths:
        leaf = p["leaf"]
        arg = leaf.run.__dict__["arg"]
        b = {arg.uid: w}
        ok = True
        for atom, val in p["conds"]:
            ai = leaf.run.atom_info.get(atom)
            if ai is None:
                raise Unmodelled(f"_normalize_attr_name: condition {atom!r} not modelled")
            if eval_atom(ai, b) != bool(val):
                ok = False
                break
        if ok:
            hits.append(eval_sstr(p["value"], b))
    ctx.require(len(hits) == 1, f"_normalize_attr_name: {len(hits)} paths apply to the name {w!r}")
    return hits[0]


def name_idempotence(ctx: Ctx, rule: str) -> None:
    """copy.copy of a dict subclass re-inserts every item through __setitem__ (CPython's copy._reconstruct), and
    Tag.tagify()/render() copy the attribute dict: stored names survive only if the name normaliser is idempotent."""
    prog = ctx.prog
    ci = prog.get_class("TagAttrDict")
    ctx.require(ci is not None, "anchor vanished: TagAttrDict")
    own_copy = prog.find_method(ci, "__copy__")
    setitem = prog.find_method(ci, "__setitem__")
    if own_copy is not None and own_copy[0].module.name.startswith("htmltools"):
        return   # the class defines its own copy: Engine A reads it
    if setitem is None or not setitem[0].module.name.startswith("htmltools"):
        return   # items are re-inserted with dict.__setitem__: names untouched
    info = attrmodel.normalize_name_pipeline(prog)
    paths = info["paths"]
    ctx.require(all(p["kind"] == "return" for p in paths), "_normalize_attr_name can raise")
    for w in PROBES:
        once = _apply_name(ctx, paths, w)
        twice = _apply_name(ctx, paths, once)
        ctx.check(once == twice, rule, f"stored name {once!r} (from {w!r}) survives the copy made by tagify()/render()", NN,
                  f"{w!r} -> {once!r} -> {twice!r}",
                  f"the name normaliser is not idempotent: {w!r} is stored as {once!r}, but copying the attribute dict (Tag.tagify, render, str) re-inserts "
                  f"it through __setitem__ and turns it into {twice!r}: the rendered attribute name differs from the stored one",
                  witness=f"t = div(**{{{w!r}: 'v'}}); list(t.attrs) vs str(t)")


def name_pipeline(ctx: Ctx, rule: str = "C15.name", mod: str = CORE, qual: str = "TagAttrDict._normalize_attr_name") -> None:
    info = attrmodel.normalize_name_pipeline(ctx.prog, mod, qual)
    NN = f"{mod}:{qual}"
    for d in info["decorators"]:
        ctx.require(d.split("(")[0].split(".")[-1] == "staticmethod", f"_normalize_attr_name: decorator @{d} not modelled")
    paths = info["paths"]
    ctx.require(all(p["kind"] == "return" for p in paths), "_normalize_attr_name can raise")
    for w in PROBES:
        hits = []
        for p in paths:
            leaf = p["leaf"]
            arg = leaf.run.__dict__["arg"]
            b = {arg.uid: w}
            ok = True
            for atom, val in p["conds"]:
                ai = leaf.run.atom_info.get(atom)
                if ai is None:
                    if isinstance(atom, tuple) and atom[0] == "nonempty":
                        raise Unmodelled("_normalize_attr_name: emptiness test not modelled")
                    raise Unmodelled(f"_normalize_attr_name: condition {atom!r} not modelled")
                if eval_atom(ai, b) != bool(val):
                    ok = False
                    break
            if ok:
                hits.append(eval_sstr(p["value"], b))
        ctx.require(len(hits) == 1, f"_normalize_attr_name: {len(hits)} paths apply to the name {w!r}")
        want = spec_name(w)
        ctx.check(hits[0] == want, rule, f"name {w!r} -> {want!r}", NN, f"{w!r} -> {hits[0]!r}",
                  f"the attribute name {w!r} is normalised to {hits[0]!r}; the rule (one trailing underscore removed, remaining "
                  f"underscores to hyphens) gives {want!r}", witness=f"div(**{{{w!r}: 'v'}}) / tag.attrs[{w!r}] = 'v'")


def setitem_key(ctx: Ctx, rule: str, mod: str = CORE, cls: str = "TagAttrDict", value_as_given: bool = False) -> None:
    """`d[name] = value` stores under the normalised name (an assignment under the raw name leaves a second, differently spelled
    entry next to the one the constructor / update() wrote)."""
    from ..interp import Config, Interp
    from ..values import SOpaque
    prog = ctx.prog
    q = f"{cls}.__setitem__"
    fn = prog.function(mod, q)
    ps = [a.arg for a in fn.args.args]
    ctx.require(len(ps) == 3, f"{q} signature changed")
    where = f"{mod}:{q}"
    cfg = Config()
    cfg.opaque_all = True
    kind = "TAGATTRDICT" if cls == "TagAttrDict" else "JSXATTRDICT"

    def mk(run: Any):
        s_ = SObj("self", {kind})
        nm, v = SObj("name", {"STR"}), SObj("value", attrmodel.ANY_VALUE_KINDS)
        run.__dict__["o"] = (nm, v)
        return ({ps[0]: s_, ps[1]: nm, ps[2]: v}, s_)

    n = 0
    for l in Interp(prog).run_function(mod, q, mk, cfg):
        nm, v = l.run.__dict__["o"]
        for e in l.effects:
            if e.kind == "basecall" and str(e.key).endswith("__setitem__") and e.value and len(e.value) == 2:
                key, val = e.value
            elif e.kind == "store_item" and getattr(e.target, "name", "") == "self":
                key, val = e.key, e.value
            else:
                continue
            n += 1
            ctx.check(key is not nm, rule, "item assignment stores under the normalised name", where, f"stores under {short(key)}",
                      f"`d[name] = value` stores the value under the name as given ({short(key)}), not under its normalised form: `attrs['class_'] = v` "
                      f"adds an entry `class_` instead of replacing `class`", witness="t = div(class_='a'); t.attrs['class_'] = 'b'")
            if value_as_given:
                ctx.check(val is v, rule, "item assignment stores the value as given", where, f"stores {short(val)}",
                          f"`d[name] = value` stores {short(val)} instead of the value")
    ctx.min_count(f"{q} stores", n, 1)


def init_delegates(ctx: Ctx) -> None:
    """TagAttrDict(*dicts, **kw) merges exactly like update(): every path of __init__ hands all its arguments to one
    self.update(*args, **kwargs) and writes nothing else (a direct item store would replace instead of joining)."""
    prog = ctx.prog
    I = Interp(prog)
    where = f"{CORE}:TagAttrDict.__init__"
    fn = prog.function(CORE, "TagAttrDict.__init__")
    a = fn.args
    ctx.require(a.vararg is not None and a.kwarg is not None, "TagAttrDict.__init__ signature changed")
    cfg = Config()
    cfg.opaque_all = True
    cfg.coarse_counts = True

    def mk(run: Any):
        s = SObj("self", {"TAGATTRDICT"}, origin="new")
        va = SObj(a.vararg.arg, {"TUPLE"})
        kw = SObj(a.kwarg.arg, {"DICT"})
        run.__dict__["o"] = (s, va, kw)
        return ({a.args[0].arg: s, a.vararg.arg: va, a.kwarg.arg: kw}, s)

    n = 0
    for l in I.run_function(CORE, "TagAttrDict.__init__", mk, cfg):
        if l.kind != "return":
            continue
        n += 1
        s, va, kw = l.run.__dict__["o"]
        upd = [e for e in l.effects if e.kind == "call" and getattr(e.target, "qual", "") == "TagAttrDict.update" and e.key is s]
        ok = len(upd) == 1
        if ok:
            ex = upd[0].extra or {}

            def _flat(xs: Any, depth: int = 0) -> List[str]:
                out: List[str] = []
                for x in xs or []:
                    v_ = x.value if isinstance(x, SSplat) else x
                    if v_ is va:
                        out.append("VA" if isinstance(x, SSplat) else "?")
                    elif v_ is kw:
                        out.append("KW" if not isinstance(x, SSplat) else "?")
                    elif isinstance(x, SSplat) and isinstance(v_, SList) and v_.mode == "concrete" and depth < 3:
                        out += _flat(v_.items, depth + 1)
                    else:
                        out.append("?")
                return out
            seq = _flat(upd[0].value)
            kw_star = any(d is kw for d in (ex.get("dstar") or []))
            kw_empty = any(isinstance(a_, tuple) and a_[0] in ("nonempty", "truthy", "truthy-kind") and a_[1] == kw.uid and not v_ for a_, v_ in l.atoms)
            # update(*args, **kwargs), or the keywords handed over as one more mapping after the positional ones (update() itself
            # treats them that way), or left out on the path where there are none
            ok = (seq == ["VA"] and (kw_star or kw_empty)) or (seq == ["VA", "KW"] and not kw_star)
        other = [e for e in l.effects if (e.kind in ("store_item", "mutcall", "basecall") and e.target is s and not (e.kind == "basecall" and str(e.key).endswith("__init__")))
                 or (e.kind == "call" and getattr(e.target, "qual", "") == "TagAttrDict.__setitem__")]
        labels = [str(lbl) for _, lbl in l.atoms][:3]
        ctx.check(ok and not other, "C15.merge", "TagAttrDict.__init__ hands all its arguments to one self.update(*args, **kwargs)", where,
                  f"path {labels}: update calls {len(upd)}, other writes {[(e.kind, short(e.key)) for e in other][:3]}",
                  f"on the path {labels} the constructor does not go through update(*args, **kwargs) (other writes: {[(e.kind, short(e.key)) for e in other][:2]}): "
                  f"values given for the same normalised name replace each other instead of being joined",
                  witness="TagAttrDict({'class': 'a', 'class_': 'b'})  /  div({'x': '1', 'x_': '2'})")
    ctx.min_count("TagAttrDict.__init__ paths", n, 1)


def update_obligations(ctx: Ctx) -> None:
    prog = ctx.prog
    u = attrmodel.update_rows(prog)
    n = 0
    for r in u["rows"]:
        start = 0
        muts = [e for e in r.leaf.effects if e.kind in ("mutcall", "del_item") and isinstance(e.target, SDict)
                and e.__dict__.get("in_loop") is None and e.key not in ("items", "get")]
        what = f"update item: value kind {_ks(r.v_kinds)}, name {'already' if r.seen else 'not yet' if r.seen is False else '?'} seen"
        if muts:
            ctx.fail("C15.order", UPD, f"{muts[0].key} on the per-call accumulator",
                     f"the per-call accumulator is modified with `{muts[0].key}` while merging: removing and re-inserting a name moves it "
                     f"to the end, so attributes are no longer ordered by first appearance",
                     witness="div({'class': 'a', 'id': 'i'}, class_='b') must render class before id")
        if r.outcome == "raise":
            continue
        nv = [k for k in r.v_kinds if k in ("NONE", "FALSE")]
        if nv:
            ctx.check(r.n_stores == 0, "C15.merge", what + ": dropped values store nothing", UPD, what + f" stores {short(r.stored)}",
                      "a None/False value is stored or merged instead of being skipped")
            continue
        if r.stored is None:
            if r.n_stores == 0:
                ctx.fail("C15.merge", UPD, what + " stores nothing", f"a value of kind {_ks(r.v_kinds)} is silently skipped",
                         witness="div(tabindex=0)")
            continue
        n += 1
        # keyed by the normalised name of this item's key, into a dict created in this call
        tgt = r.store_target
        ctx.check(isinstance(tgt, SDict) and tgt.origin == "new", "C15.fresh", "values are accumulated in a dict created by this call", UPD,
                  f"store into {short(tgt)}", "update() accumulates into a dict that outlives the call (a later update would append instead of replace)")
        if r.seen:
            vc = ValueClass(r.stored)
            frs = [f for f in vc.frags]
            ofs = [f for f in frs if f.kind == "OF"]
            lits = [f.a for f in frs if f.kind == "LIT"]
            prev_first = len(ofs) == 2 and r.prev_obj is not None and ofs[0].a[0] == r.prev_obj.uid and ofs[1].a[0] == r.val_obj.uid
            if len(ofs) == 1 and r.stored is not None and any(k in r.v_kinds for k in ("TRUE",)):
                prev_first = ofs[0].a[0] == r.prev_obj.uid and frs[-1].kind == "LIT"
            ctx.check(prev_first and lits == [" "], "C15.merge", what + ": existing + ' ' + new", UPD, what + f" -> {short(r.stored)}",
                      f"values for one name are joined as {short(r.stored)}; the rule is existing value, one space, new value (argument order)",
                      witness="div({'class': 'a'}, class_='b').attrs['class'] == 'a b'")
        else:
            vc = ValueClass(r.stored)
            ctx.check(vc.kind in ("plain", "html", "asis") and len([f for f in vc.frags if f.kind == "OF"]) <= 1, "C15.merge",
                      what + ": first value stored as normalised", UPD, what + f" -> {short(r.stored)}", f"the first value for a name is stored as {short(r.stored)}")
    ctx.min_count("update rows storing a value", n, 4)

    # summary run: order of argument processing and the single final write
    I = Interp(prog)
    fn = u["fn"]
    a = fn.args

    def mk(run: Any):
        s = SObj("self", {"TAGATTRDICT"})
        d1, d2 = SObj("arg0", {"DICT"}), SObj("arg1", {"DICT"})
        kw = SDict(name="kwargs", concrete=False)
        run.__dict__["o"] = (s, d1, d2, kw)
        return ({a.args[0].arg: s, a.vararg.arg: (d1, d2), a.kwarg.arg: kw}, s)

    cfg = Config()
    cfg.loop_effects = False
    for l in I.run_function(CORE, "TagAttrDict.update", mk, cfg):
        s, d1, d2, kw = l.run.__dict__["o"]
        kw_truthy = l.run.path.memo.get(("nonempty", kw.uid))
        its = []
        for rec in l.run.loops:
            d = getattr(rec.iter_value, "iter_descr", None)
            if d is not None and d[0] == "items":
                its.append(d[1])
        want = [d1, d2] + ([kw] if kw_truthy == 0 else [])
        if kw_truthy is None and len(its) == 3 and its[2] is kw:
            want = [d1, d2, kw]      # keywords walked unconditionally (an empty mapping contributes nothing)
        ctx.check(len(its) == len(want) and all(x is y for x, y in zip(its, want)), "C15.order",
                  f"update processes positional dicts left to right{', then the keywords' if kw_truthy == 0 else ''}", UPD,
                  f"item loops over {[short(x) for x in its]}",
                  f"update() processes its arguments as {[short(x) for x in its]} instead of positional dicts left to right, then keywords")
        writes = [e for e in l.effects if (e.kind in ("basecall", "mutcall", "store_item") and (e.target is s))]
        okw = len(writes) == 1 and writes[0].kind == "basecall" and str(writes[0].key).endswith(".update") \
            and len(writes[0].value) == 1 and isinstance(writes[0].value[0], SDict) and writes[0].value[0].origin == "new"
        ctx.check(okw, "C15.replace", "one final dict.update(self, <per-call dict>) is the only write to the stored attributes", UPD,
                  f"writes {[repr(e)[:70] for e in writes]}",
                  "update() does not write the per-call result with a single dict.update: a later update/assignment would not simply replace")


def _ks(ks: Any) -> str:
    ks = sorted(ks or [])
    return "|".join(ks) if len(ks) <= 3 else f"{len(ks)} kinds"


def partition_obligations(ctx: Ctx) -> None:
    prog = ctx.prog
    I = Interp(prog)
    fn = prog.function(CORE, "Tag.__init__")
    where = f"{CORE}:Tag.__init__"
    a = fn.args

    def mk(run: Any):
        s = SNew(prog.get_class("Tag"))
        args = SObj("args", {"TUPLE"})
        args.meta["elem_kinds"] = ALL_KINDS
        kw = SDict(name="kwargs", concrete=False)
        run.__dict__["o"] = (s, args, kw)
        return ({a.args[0].arg: s, a.args[1].arg: SObj("_name", {"STR"}), a.vararg.arg: args, "_add_ws": True, a.kwarg.arg: kw}, s)

    leaves = I.run_function(CORE, "Tag.__init__", mk, Config())
    loop_shape = any(_splat_carried(l.run.__dict__["o"][0].attrs.get("attrs")) is not None for l in leaves if l.kind == "return")
    if loop_shape:
        _partition_by_loops(ctx, leaves, where)
        leaves = []
    for l in leaves:
        if l.kind != "return":
            continue
        s, args, kw = l.run.__dict__["o"]
        at, ch = s.attrs.get("attrs"), s.attrs.get("children")
        n_args = _len_on_path(l.atoms, args.uid)
        if n_args in (0, 1) and isinstance(at, SNew) and isinstance(ch, SNew) and at.cls_name == "TagAttrDict" and ch.cls_name == "TagList" \
                and not at.star and not ch.star:
            # a fast path for no / one positional argument: the same partition, spelled out
            pa, pc = list(at.args), list(ch.args)
            only = pa + pc
            ok_fast = len(at.dstar) == 1 and at.dstar[0] is kw and not at.kwargs and not ch.kwargs and not ch.dstar
            if n_args == 0:
                ok_fast = ok_fast and not only
            else:
                ok_fast = ok_fast and len(only) == 1 and isinstance(only[0], SObj) and str(only[0].name).startswith(f"{args.name}[")
                if ok_fast:
                    e_ = only[0]
                    ok_fast = (bool(pa) and e_.kinds <= DICT_KINDS) or (bool(pc) and not (e_.kinds & DICT_KINDS))
            ctx.check(ok_fast, "C15.partition", f"with {n_args} positional argument(s): attrs / children hold exactly the dict / non-dict arguments", where,
                      f"{n_args} args: self.attrs = {short(at)}; self.children = {short(ch)}",
                      f"with {n_args} positional argument(s) the tag is built as attrs={short(at)}, children={short(ch)}: not the dict arguments as attributes "
                      f"(followed by the keywords) and the other arguments as children")
            continue
        ok_a = isinstance(at, SNew) and at.cls_name == "TagAttrDict" and len(at.star) == 1 and isinstance(at.star[0], SList) \
            and at.star[0].mode == "view" and at.star[0].base is args and at.star[0].kinds == DICT_KINDS and not at.args \
            and len(at.dstar) == 1 and at.dstar[0] is kw
        ctx.check(ok_a, "C15.partition", "attrs = TagAttrDict(*[dict arguments in order], **kwargs)", where, f"self.attrs = {short(at)}",
                  f"the attribute map is built as {short(at)}, not from exactly the dict arguments in order followed by the keywords")
        ok_c = isinstance(ch, SNew) and ch.cls_name == "TagList" and len(ch.star) == 1 and isinstance(ch.star[0], SList) \
            and ch.star[0].mode == "view" and ch.star[0].base is args and ch.star[0].kinds == (ALL_KINDS - DICT_KINDS) and not ch.args
        ctx.check(ok_c, "C15.partition", "children = TagList(*[non-dict arguments in order])", where, f"self.children = {short(ch)}",
                  f"the children are built as {short(ch)}, not from exactly the non-dict arguments in order")
    # consolidate_attrs
    fn2 = prog.function(CORE, "consolidate_attrs")
    w2 = f"{CORE}:consolidate_attrs"
    a2 = fn2.args

    def mk2(run: Any):
        args = SObj("args", {"TUPLE"})
        args.meta["elem_kinds"] = ALL_KINDS
        kw = SDict(name="kwargs", concrete=False)
        run.__dict__["o"] = (args, kw)
        return ({a2.vararg.arg: args, a2.kwarg.arg: kw}, None)

    for l in I.run_function(CORE, "consolidate_attrs", mk2, Config()):
        args, kw = l.run.__dict__["o"]
        ctx.require(l.kind == "return", "consolidate_attrs raises")
        v = l.value
        items = v.items if isinstance(v, SList) else list(v) if isinstance(v, tuple) else None
        ctx.require(items is not None and len(items) == 2, "consolidate_attrs does not return a pair")
        news = [e.target for e in l.effects if e.kind == "new" and isinstance(e.target, SNew) and e.target.cls_name == "Tag"]
        okt = len(news) == 1 and len(news[0].star) == 1 and news[0].star[0] is args and len(news[0].dstar) == 1 and news[0].dstar[0] is kw \
            and len(news[0].args) == 1 and not news[0].kwargs
        ctx.check(okt, "C15.consolidate", "consolidate_attrs builds Tag(<name>, *args, **kwargs)", w2, f"{[short(x) for x in news]}",
                  "consolidate_attrs does not forward exactly *args, **kwargs to Tag()")
        d = items[0]
        okd = isinstance(d, SDict) and isinstance(d.__dict__.get("copy_of"), SObj) and (d.__dict__["copy_of"].meta.get("attr_of") or (None, None))[1] == "attrs" \
            and news and d.__dict__["copy_of"].meta["attr_of"][0] is news[0]
        if not okd and isinstance(d, SDict) and not d.items and len(d.dstar or []) == 1:
            # attrs = {**tag.attrs}
            src_ = d.dstar[0]
            okd = isinstance(src_, SObj) and (src_.meta.get("attr_of") or (None, None))[1] == "attrs" and bool(news) and src_.meta["attr_of"][0] is news[0]
        if not okd and isinstance(d, SDict) and not d.concrete:
            # attrs = {}; for k, v in tag.attrs.items(): attrs[k] = v
            from ..loopbuilt import contributions, iter_base
            cs = contributions(l, d)
            okd = len(cs) == 1 and cs[0]["how"] == "setitem" and cs[0]["loop"] is not None and isinstance(cs[0]["element"], SList) \
                and cs[0]["key"] is cs[0]["element"].items[0] and cs[0]["value"] is cs[0]["element"].items[1] \
                and isinstance(iter_base(cs[0]["iter"]), SObj) and (iter_base(cs[0]["iter"]).meta.get("attr_of") or (None, None))[1] == "attrs" \
                and news and iter_base(cs[0]["iter"]).meta["attr_of"][0] is news[0]
        ctx.check(bool(okd), "C15.consolidate", "first result is dict(tag.attrs)", w2, f"attrs result {short(d)}",
                  f"the attributes returned are {short(d)}, not a plain dict copy of the throwaway tag's attrs")
        c = items[1]
        okc = isinstance(c, SList) and c.mode == "view" and c.base is args and c.kinds == (ALL_KINDS - DICT_KINDS)
        if not okc and isinstance(c, SList) and c.mode == "carried":
            from ..loopbuilt import contributions, iter_base
            cs = contributions(l, c)
            okc = all(x["how"] == "append" and x["loop"] is not None and iter_base(x["iter"]) is args and x["value"] is x["element"]
                      and isinstance(x["element"], SObj) and not (x["element"].kinds & DICT_KINDS) for x in cs)
            # (the complementary path, on which a dict argument is skipped, appends nothing)
            el = [r.__dict__.get("element") for r in l.run.loops if iter_base(r.iter_value) is args]
            okc = okc and bool(el) and (bool(cs) or all(isinstance(e, SObj) and e.kinds <= DICT_KINDS for e in el))
        ctx.check(okc, "C15.children", "second result is the non-dict arguments, filtered by the same predicate as Tag.__init__", w2,
                  f"children result {short(c)}", f"the children returned are {short(c)}: not exactly the arguments Tag() does not treat as attribute dicts")


def _len_on_path(atoms: Any, uid: int) -> Any:
    """0 / 1 when the path's count decisions fix the length of the collection, else None."""
    groups = [(frozenset(a[2]), str(lab)) for a, lab in atoms if isinstance(a, tuple) and a[0] == "count" and a[1] == uid]
    for a, lab in atoms:
        if isinstance(a, tuple) and a[0] == "nonempty" and a[1] == uid and lab is False:
            return 0
    if not groups:
        return None
    cov = frozenset().union(*[g for g, _ in groups])
    if cov != frozenset(ALL_KINDS):
        return None
    labs = [lab for _, lab in groups]
    if any(x not in ("n=0", "n=1") for x in labs):
        return None
    n = labs.count("n=1")
    return n if n <= 1 else None


def _splat_carried(v: Any) -> Any:
    """`Cls(*lst, ...)` where lst is a list built by a loop."""
    if isinstance(v, SNew) and len(v.star) == 1 and isinstance(v.star[0], SList) and v.star[0].mode == "carried" and not v.args:
        return v.star[0]
    return None


def _partition_by_loops(ctx: Ctx, leaves: List[Any], where: str) -> None:
    """Tag.__init__ written with explicit loops: per kind of a positional argument, which list receives it."""
    from ..loopbuilt import contributions, iter_base
    seen_attr: set = set()
    seen_kid: set = set()
    for l in leaves:
        if l.kind != "return":
            continue
        s, args, kw = l.run.__dict__["o"]
        at, ch = s.attrs.get("attrs"), s.attrs.get("children")
        la, lc = _splat_carried(at), _splat_carried(ch)
        ctx.check(la is not None and isinstance(at, SNew) and at.cls_name == "TagAttrDict" and len(at.dstar) == 1 and at.dstar[0] is kw and lc is not None
                  and isinstance(ch, SNew) and ch.cls_name == "TagList", "C15.partition",
                  "attrs = TagAttrDict(*<dict arguments>, **kwargs) and children = TagList(*<other arguments>)", where,
                  f"attrs={short(at)} children={short(ch)}", "Tag.__init__ does not build attrs/children from two argument lists")
        if la is None or lc is None:
            continue
        for lst, is_attr in ((la, True), (lc, False)):
            for c in contributions(l, lst):
                good = c["how"] == "append" and c["loop"] is not None and iter_base(c["iter"]) is args and c["value"] is c["element"]
                el = c["element"]
                ks = frozenset(el.kinds) if isinstance(el, SObj) else frozenset()
                good = good and (ks <= DICT_KINDS if is_attr else not (ks & DICT_KINDS))
                ctx.check(good, "C15.partition", f"{'dict' if is_attr else 'non-dict'} arguments go, unchanged and in order, to the {'attribute' if is_attr else 'child'} list",
                          where, f"{'attrs' if is_attr else 'children'} list receives {short(c['value'])} for kinds {sorted(ks)[:4]}",
                          f"the {'attribute' if is_attr else 'child'} list receives {short(c['value'])} for an argument of kind {sorted(ks)[:4]}: arguments are not partitioned by isinstance(x, dict)")
                (seen_attr if is_attr else seen_kid).update(ks)
    ctx.check(seen_attr >= DICT_KINDS and seen_kid >= (ALL_KINDS - DICT_KINDS), "C15.partition", "every argument kind lands in exactly one of the two lists", where,
              f"attr kinds {sorted(seen_attr)[:4]}.. child kinds {len(seen_kid)}", "some kind of positional argument is dropped by Tag.__init__")


def check(ctx: Ctx) -> None:
    ctx.explanation = (
        "Engine A derives: the dispatch table of _normalize_attr_value per value kind; the string pipeline of "
        "_normalize_attr_name (conditions + operation chain), evaluated on the raw-name shapes the property lists and "
        "compared with 'strip one trailing underscore, then underscores to hyphens'; every path of TagAttrDict.update's item "
        "loop (dropped values store nothing, a repeated name stores existing + ' ' + new, the accumulator is a per-call dict "
        "that is never popped/re-inserted); the order in which update walks its arguments and its single final "
        "dict.update; __setitem__ normalises and replaces; Tag.__init__ splits its arguments by one predicate into "
        "TagAttrDict(*dicts, **kwargs) and TagList(*others); consolidate_attrs forwards *args/**kwargs to Tag, returns "
        "dict(tag.attrs) and the arguments filtered by the same predicate.")
    ctx.trust("dict preserves insertion order", "Engine A abstract semantics", "str methods evaluated on probe names by the checker's interpreter")
    value_table_obligations(ctx, "C15")
    name_pipeline(ctx)
    name_idempotence(ctx, "C15.name")
    init_delegates(ctx)
    update_obligations(ctx)
    setitem_obligations(ctx, "C15", exact=True)
    setitem_key(ctx, "C15.setitem")
    partition_obligations(ctx)
