"""C14 - child lists hold only normalised nodes after any sequence of operations (DESIGN 4, C14)."""

from __future__ import annotations

import ast
from typing import Any, Dict, List, Optional, Set, Tuple

from .. import childnorm
from ..frontend import ClassInfo
from ..interp import Config, Interp, _Raise
from ..report import Ctx
from ..values import (ALL_KINDS, SBool, SDict, SFunc, SList, SNew, SObj, SOpaque, SSplat, SStr, Sym, Unmodelled, short)

CORE = "htmltools._core"
SAN = "_tagchilds_to_tagnodes"
# operations the property lists -> methods that implement them
OPERATIONS = {
    "construction": "__init__", "append": "append", "extend": "extend", "insert": "insert", "+": "__add__",
    "reflected +": "__radd__", "+=": "__iadd__", "slicing": "__getitem__", "repetition": "__mul__",
    "reflected repetition": "__rmul__", "in-place repetition": "__imul__", "copy()": "copy",
}


def _taint(v: Any, params: Dict[int, str], depth: int = 0) -> Set[str]:
    """Names of non-self parameters whose raw content may be contained in v (sanitiser results are clean)."""
    if depth > 8 or not isinstance(v, Sym):
        return set()
    if isinstance(v, SObj):
        lo = v.meta.get("list_of")
        if isinstance(lo, SObj) and lo.kinds and lo.kinds <= {"TAGLIST"}:
            return set()   # induction hypothesis: the storage (.data) of any TagList holds normalised nodes only
        if v.uid in params:
            return {params[v.uid]}
        c = v.meta.get("call")
        if c is not None:
            if getattr(c["func"], "qual", "") == SAN:
                return set()
            out: Set[str] = set()
            for a in c["args"]:
                out |= _taint(a, params, depth + 1)
            return out
        for key in ("attr_of", "item_of", "list_of", "copy_of"):
            b = v.meta.get(key)
            if b is not None:
                return _taint(b[0] if isinstance(b, tuple) else b, params, depth + 1)
        if v.elem_of is not None:
            return _taint(v.elem_of[0], params, depth + 1)
        return set()
    if isinstance(v, SSplat):
        return _taint(v.value, params, depth + 1)
    if isinstance(v, SList):
        out = set()
        for i in v.items:
            out |= _taint(i, params, depth + 1)
        if v.base is not None:
            out |= _taint(v.base, params, depth + 1)
        return out
    if isinstance(v, SOpaque):
        out = set()
        for k in ("of", "copy_of"):
            if k in v.__dict__:
                out |= _taint(v.__dict__[k], params, depth + 1)
        ops = v.__dict__.get("operands", ())
        if isinstance(v.descr, tuple) and v.descr and v.descr[0] == "mul":
            seqs = [o for o in ops if isinstance(o, SList) or (isinstance(o, SObj) and o.kinds <= {"LIST", "TUPLE", "TAGLIST"})]
            if seqs:
                ops = tuple(seqs)     # sequence * count: the elements come from the sequence operand only
        for o in ops:
            out |= _taint(o, params, depth + 1)
        c = v.__dict__.get("call")
        if c is not None and getattr(c["func"], "qual", "") != SAN:
            for a in c["args"]:
                out |= _taint(a, params, depth + 1)
        return out
    if isinstance(v, SNew):
        return set()   # a constructed object; TagList(...) re-enters the checked constructor
    return set()


def _is_san_result(v: Any) -> bool:
    c = v.meta.get("call") if isinstance(v, SObj) else (v.__dict__.get("call") if isinstance(v, SOpaque) else None)
    return c is not None and getattr(c.get("func"), "qual", "") == SAN


def _reaches_obj(v: Any, pred: Any, depth: int = 0) -> bool:
    """Does the value (a call result, a construction, a list, a splat ...) contain an object satisfying pred?"""
    if depth > 8 or v is None:
        return False
    if isinstance(v, SObj) and pred(v):
        return True
    if isinstance(v, SSplat):
        return _reaches_obj(v.value, pred, depth + 1)
    if isinstance(v, SList):
        return any(_reaches_obj(i, pred, depth + 1) for i in v.items) or (v.base is not None and _reaches_obj(v.base, pred, depth + 1))
    if isinstance(v, SNew):
        return any(_reaches_obj(a, pred, depth + 1) for a in list(v.args) + list(v.star) + list(v.kwargs.values()))
    if isinstance(v, (list, tuple)):
        return any(_reaches_obj(a, pred, depth + 1) for a in v)
    c = v.meta.get("call") if isinstance(v, SObj) else (v.__dict__.get("call") if isinstance(v, SOpaque) else None)
    if c is not None:
        return _reaches_obj(c.get("recv"), pred, depth + 1) or any(_reaches_obj(a, pred, depth + 1) for a in c.get("args", []))
    if isinstance(v, SOpaque):
        for key in ("of", "copy_of"):
            if key in v.__dict__ and _reaches_obj(v.__dict__[key], pred, depth + 1):
                return True
        return any(_reaches_obj(o, pred, depth + 1) for o in v.__dict__.get("operands", ()))
    if isinstance(v, SObj):
        for key in ("attr_of", "item_of", "list_of", "copy_of"):
            b = v.meta.get(key)
            if b is not None and _reaches_obj(b[0] if isinstance(b, tuple) else b, pred, depth + 1):
                return True
    return False


def _reaches(v: Any, pname: str, params: Dict[int, str]) -> bool:
    return _reaches_obj(v, lambda o: params.get(o.uid) == pname)


def _mentions_param(v: Any, pname: str, params: Dict[int, str], depth: int = 0) -> bool:
    if depth > 6:
        return False
    if isinstance(v, SObj):
        if params.get(v.uid) == pname:
            return True
        c = v.meta.get("call")
        if c is not None:
            return _mentions_param(c.get("recv"), pname, params, depth + 1) or any(_mentions_param(a, pname, params, depth + 1) for a in c["args"])
        return False
    if isinstance(v, SOpaque):
        mc = v.__dict__.get("method_call")
        if mc is not None and _mentions_param(mc["recv"], pname, params, depth + 1):
            return True
        return any(_mentions_param(o, pname, params, depth + 1) for o in v.__dict__.get("operands", ()))
    return False


def _run_method(ctx: Ctx, I: Interp, ci: ClassInfo, fn: ast.FunctionDef, meth: str) -> List[Any]:
    cfg = Config()
    cfg.opaque = {SAN}

    def mk(run: Any) -> Tuple[Dict[str, Any], Any]:
        s = SObj("self", {"TAGLIST"})
        b: Dict[str, Any] = {fn.args.args[0].arg: s}
        params: Dict[int, str] = {}
        for a in fn.args.args[1:] + fn.args.kwonlyargs:
            o = SObj(a.arg, ALL_KINDS)
            b[a.arg] = o
            params[o.uid] = a.arg
        if fn.args.vararg:
            o = SObj(fn.args.vararg.arg, {"TUPLE"})
            l = SList("concrete", [SSplat(o)])
            l.pytype = "tuple"
            b[fn.args.vararg.arg] = l
            params[o.uid] = "*" + fn.args.vararg.arg
            run.__dict__["vararg_tuple_uid"] = getattr(l, "uid", None)
        run.__dict__["params"] = params
        run.__dict__["self_obj"] = s
        return b, s

    def body(run: Any) -> Tuple[Any, ...]:
        binds, s = mk(run)
        f = SFunc(ci.module, fn, s, ci, None, f"{ci.name}.{meth}")
        try:
            return ("return", run.ev.call_function(f, [], {}, binds=binds, top=True))
        except _Raise as r:
            return ("raise", r.exc)

    return I.explore(body, cfg)


def _sinks(leaf: Any) -> List[Tuple[int, Any, Any]]:
    """(effect index, effect, written value) for every write into the receiver's element storage."""
    s = leaf.run.__dict__["self_obj"]
    data = s.attrs.get("data")
    out = []
    for i, e in enumerate(leaf.effects):
        tgt = e.target
        is_store = tgt is s or (data is not None and tgt is data) or (isinstance(tgt, SObj) and tgt.meta.get("list_of") is s)
        if e.kind == "store_attr" and tgt is s and e.key == "data":
            out.append((i, e, e.value))
        elif e.kind in ("store_item", "store_slice") and is_store:
            out.append((i, e, e.value))
        elif e.kind == "mutcall" and is_store and e.key in ("append", "extend", "insert", "__iadd__", "__setitem__"):
            out.append((i, e, e.value[-1] if e.value else None))
        elif e.kind == "basecall" and e.target is s and str(e.key).split(".")[-1] in ("append", "extend", "insert", "__iadd__", "__setitem__", "__init__"):
            out.append((i, e, e.value[-1] if e.value else None))
    return out


def check(ctx: Ctx) -> None:
    ctx.explanation = (
        "Taint-with-sanitiser over the effective method set of TagList (its own methods plus collections.UserList parsed "
        "from this interpreter's stdlib), interpreted by Engine A: for every operation the property lists, any write into "
        "the list's storage whose value derives from a non-self argument must be the result of the normaliser "
        "_tagchilds_to_tagnodes (or a TagList(...) construction, which re-enters the checked constructor); in every "
        "mutator all normaliser calls precede all storage writes (a TypeError leaves the list unchanged). The normaliser's "
        "dispatch table (numbers -> str, tag nodes kept, everything else TypeError, a str argument kept whole) and "
        "flatten's (recursion exactly on list/tuple/TagList, None dropped, forward order) are derived per value kind; "
        "is_tag_child must be True for every kind these accept and is_tag_node for every kind that can be stored; "
        "Tag.insert/extend/append only delegate to the child list.")
    ctx.trust("collections.UserList as parsed from the stdlib", "list mutator semantics", "Engine A abstract semantics")
    ctx.assume("__setitem__ (item/slice assignment) is not among the operations the property lists")
    I = Interp(ctx.prog)
    operation_obligations(ctx, I)
    # ---- .3 dispatch table of the normaliser -------------------------------------------------------------------
    normaliser_tables(ctx)
    # ---- .6 Tag delegates ------------------------------------------------------------------------------------------------------
    for meth in ("insert", "extend", "append"):
        _delegates(ctx, I, meth)
    own_storage(ctx, "C14.own")


def own_storage(ctx: Any, rule: str) -> None:
    """The storage of a child list is a list of its own: no operation replaces `.data` by a list that somebody else holds (an
    argument's storage, or the result of a helper that may hand back its argument) - otherwise a later append/insert on one
    list shows up in the other, and the children are no longer the flattening of what was supplied to *this* list."""
    from ..ownership import Ownership
    prog = ctx.prog
    O = Ownership(prog, skip_modules=("htmltools._jsx",))
    entries = [q for q in ("TagList.__init__", "TagList.extend", "TagList.append", "TagList.insert", "TagList.__iadd__", "TagList.__add__",
                           "TagList.__radd__", "TagList.tagify", "Tag.extend", "Tag.append", "Tag.insert", "Tag.__init__") if prog.has_function(CORE, q)]
    O.solve(entries)
    errs = [(q, O.sums[q].error) for q in O.analysed if O.sums[q].error]
    ctx.require(not errs, "ownership analysis cannot model: " + "; ".join(f"{q}: {e}" for q, e in errs[:3]))
    n = 0
    for q in O.analysed:
        sm = O.sums.get(q)
        if sm is None:
            continue
        n += 1
        for st in sm.__dict__.get("adopts", []):
            ctx.fail(rule, f"{CORE}:{q}", st.text(), f"`{st.text()}` in {q} makes {st.target} the storage of `{st.root}`: that list belongs to the caller or to another "
                     f"child list (a helper on the way hands back its argument's own list), so the two lists change together from here on",
                     witness="a = TagList('x'); b = TagList(); b.extend(a); b.append('y'); list(a)", line=getattr(st.node, "lineno", None))
    ctx.ok(rule, "no child-list operation adopts a foreign list as its storage", functions=n)


def operation_obligations(ctx: Any, I: Interp) -> None:
    """Every listed operation of TagList, interpreted: what reaches the storage is normalised (taint), the normaliser runs before
    any write (atomic), the arguments are stored (stores)."""
    prog = ctx.prog
    tl = prog.get_class("TagList")
    ctx.require(tl is not None, "anchor vanished: TagList")
    ctx.require(prog.is_subclass(tl, "UserList"), "TagList no longer derives from UserList: the storage model does not apply")
    n_ops = 0
    for op, meth in OPERATIONS.items():
        m = prog.find_method(tl, meth)
        ctx.require(m is not None, f"TagList has no method {meth}")
        ci, fn = m
        where = f"{ci.module.name}:{ci.name}.{meth}" if ci.module.name.startswith("htmltools") else f"{CORE}:TagList.{meth} (inherited from {ci.name})"
        leaves = _run_method(ctx, I, ci, fn, meth)
        ctx.require(bool(leaves), f"{ci.name}.{meth}: no path")
        n_ops += 1
        own = ci is tl
        for l in leaves:
            params = l.run.__dict__["params"]
            sinks = _sinks(l)
            if l.kind == "raise" and own:
                labels = [str(lbl) for _, lbl in l.atoms][:3]
                ctx.fail("C14.accept", where, f"`{op}` raises {getattr(l.value, 'cls_name', '?')} on path {labels}",
                         f"`{op}` itself raises {getattr(l.value, 'cls_name', '?')} when {labels}: the only rejection the property allows is the normaliser's "
                         f"TypeError for an invalid child, and an argument that the constructor, + and extend accept (e.g. an empty list) must be accepted here too",
                         witness="tl = TagList('a'); tl += []" if meth == "__iadd__" else None)
            san_idx = [i for i, e in enumerate(l.effects) if e.kind == "call" and getattr(e.target, "qual", "") == SAN]
            for i, e, val in sinks:
                t = _taint(val, params)
                if t and isinstance(val, SObj) and val.kinds and val.kinds <= {"TAGLIST"} and (
                        e.kind == "store_slice" or str(e.key).split(".")[-1] in ("extend", "__iadd__")):
                    t = set()   # element-wise splice of a TagList: its elements are normalised nodes (induction hypothesis)
                ctx.check(not t, "C14.taint", f"operation `{op}` ({ci.name}.{meth}) stores only normalised nodes", where,
                          f"{e.kind} {e.key if e.kind != 'store_attr' else 'data'} := {short(val)}",
                          f"`{op}` writes argument `{sorted(t)[0] if t else ''}` into the list without passing it through {SAN}: "
                          f"nested lists are not flattened, None is kept, numbers are not converted, invalid objects are accepted"
                          + ("" if own else f" ({meth} is inherited from {ci.name} and not overridden)"),
                          witness="tl = TagList('a'); tl += [1, None, [2]]" if meth == "__iadd__" else f"TagList('a').{meth}(...)")
                if own and san_idx:
                    late = [j for j in san_idx if j > i]
                    in_loop = e.__dict__.get("in_loop") is not None and any(l.effects[j].__dict__.get("in_loop") == e.__dict__.get("in_loop") for j in san_idx)
                    ctx.check(not late and not in_loop, "C14.atomic", f"`{op}`: every normaliser call precedes every storage write", where,
                              f"{e.kind} {short(val)} before/inside normalisation",
                              f"`{op}` writes to the list {'inside the loop that normalises the items one by one' if in_loop else 'before all items are normalised'}: "
                              f"a TypeError raised for a later item leaves earlier items in the list",
                              witness=f"x = TagList(); x.{meth}(['a', object()])  # TypeError, but 'a' stays")
            if meth == "insert" and own and l.kind == "return":
                # the normalised nodes must go in as one contiguous splice at the requested index
                idx = [o for o in l.run.elem_memo.values()] and None
                pnames = {v: k for k, v in params.items()}
                ipar = fn.args.args[1].arg if len(fn.args.args) > 1 else None
                good = len(sinks) == 1 and sinks[0][1].kind == "store_slice" and isinstance(sinks[0][1].key, tuple) \
                    and all(isinstance(b, SObj) and params.get(b.uid) == ipar for b in sinks[0][1].key)
                if not good:
                    # per-node list.insert(<index derived from i> + k, node) inside a loop over the normalised nodes
                    per_node = [e for _, e, _ in sinks if e.kind == "mutcall" and e.key == "insert" and e.__dict__.get("in_loop") is not None]
                    cmp_on_i = [a for a, _ in l.atoms if isinstance(a, tuple) and a[0] in ("cmp", "len-cmp", "nonzero") and ipar in repr(a)]
                    if per_node and len(per_node) == len(sinks) and not cmp_on_i:
                        idx_arg = per_node[0].value[0] if per_node[0].value else None
                        from_i = ipar is not None and _mentions_param(idx_arg, ipar, params)
                        if from_i:
                            ctx.fail("C14.splice", where, f"self.data.insert({short(idx_arg)}, node) per node",
                                     f"`insert` places the normalised nodes one at a time at `{short(idx_arg)}` computed from the raw index `{ipar}` without "
                                     f"normalising a negative index first: list.insert(-1 + k, node) does not continue where the previous node went, so for a "
                                     f"negative index and an argument that flattens to several nodes the nodes are misplaced / reordered",
                                     witness="tl = TagList(1, 2, 3, 4); tl.insert(-1, ['a', 'b'])  # expected 1 2 3 a b 4")
                            continue
                ctx.require(good, f"TagList.insert does not splice the normalised nodes with one `self[i:i] = nodes` "
                                  f"(found {[repr(e)[:70] for _, e, _ in sinks]}): order of the inserted nodes for all indices cannot be decided")
                ctx.ok("C14.splice", "TagList.insert splices the normalised nodes at [i:i] in one slice assignment")
            # completeness: what the caller passed actually ends up in the list
            content = [a.arg for a in fn.args.args[1:] if not (meth == "insert" and a is fn.args.args[1])] + \
                ([("*" + fn.args.vararg.arg)] if fn.args.vararg else [])
            if own and l.kind == "return" and meth in ("__init__", "append", "extend", "__iadd__", "insert"):
                def _is_taglist_storage(v_: Any) -> bool:
                    # the storage of a TagList operand (or the operand itself, spliced element-wise) holds normalised nodes already
                    if isinstance(v_, SObj) and v_.kinds and v_.kinds <= {"TAGLIST"} and v_.uid in params:
                        return True
                    lo_ = v_.meta.get("list_of") if isinstance(v_, SObj) else None
                    return isinstance(lo_, SObj) and lo_.kinds and lo_.kinds <= {"TAGLIST"} and lo_.uid in params
                stored = [val for _, _, val in sinks if _is_san_result(val) or _reaches_obj(val, _is_san_result) or _is_taglist_storage(val)]
                missing = [pn for pn in content if not any(_reaches(v_, pn, params) for v_ in stored)]
                # an argument the path has established to be empty contributes nothing
                empties = set()
                vu = l.run.__dict__.get("vararg_tuple_uid")
                names_ = dict(params)
                if vu is not None and fn.args.vararg:
                    names_[vu] = "*" + fn.args.vararg.arg
                for a_, v_ in l.atoms:
                    if isinstance(a_, tuple) and len(a_) > 1 and a_[1] in names_:
                        if (a_[0] == "nonempty" and v_ is False) or (a_[0] == "len-cmp" and (a_[2], a_[3]) == ("==", 0) and v_ is True):
                            empties.add(names_[a_[1]])
                for a_, v_ in []:
                    if isinstance(a_, tuple) and len(a_) > 1 and a_[1] in params:
                        if (a_[0] == "nonempty" and v_ is False) or (a_[0] == "len-cmp" and (a_[2], a_[3]) == ("==", 0) and v_ is True):
                            empties.add(params[a_[1]])
                        if a_[0] == "count" and str(v_) == "n=0":
                            empties.add(("count", params[a_[1]]))
                for pn in list(missing):
                    cs_ = [str(v_) for a_, v_ in l.atoms if isinstance(a_, tuple) and a_[0] == "count" and len(a_) > 1 and params.get(a_[1]) == pn]
                    if pn in empties or (cs_ and all(c == "n=0" for c in cs_)):
                        missing.remove(pn)
                labels = [str(lbl) for _, lbl in l.atoms][:2]
                ctx.check(not missing, "C14.stores", f"`{op}` stores the normalised nodes of its argument(s)", where,
                          f"path {labels}: stored {[short(v_) for v_ in stored][:2]}; arguments {content}",
                          f"`{op}` returns without storing the normalised nodes of `{missing[0] if missing else ''}` (path {labels}): the children passed are silently lost",
                          witness=f"tl = TagList('a'); tl {'+=' if meth == '__iadd__' else '.' + meth} ...; list(tl)")
            if own and l.kind == "return" and meth in ("__add__", "__radd__"):
                v_ = l.value
                s_ = l.run.__dict__["self_obj"]
                both = isinstance(v_, SNew) and _reaches_obj(v_, lambda o: o is s_) and all(_reaches(v_, pn, params) for pn in content)
                ctx.check(bool(both), "C14.stores", f"`{op}` builds its result from the list and the operand", where, f"returns {short(v_)}",
                          f"`{op}` returns {short(v_)}: not a TagList built from both the list and the operand")
            # constructions handed to the caller
            if l.kind == "return" and isinstance(l.value, SNew) and isinstance(l.value.cls, ClassInfo):
                ctx.check(prog.is_subclass(l.value.cls, "TagList"), "C14.taint", f"`{op}` returns a TagList built by its constructor",
                          where, f"returns {short(l.value)}", f"`{op}` returns {l.value.cls_name}, not a TagList")
    ctx.count("operations analysed", n_ops)


def normaliser_tables(ctx: Ctx) -> None:
    """Dispatch tables of the child normaliser, of flatten, and the acceptance predicates (shared with C17: what a
    `with tag:` block captures is type-checked here)."""
    prog = ctx.prog
    where = f"{CORE}:{SAN}"
    t = childnorm.tagchilds_table(prog)
    node_tbl = childnorm.predicate_table(prog, "is_tag_node")
    child_tbl = childnorm.predicate_table(prog, "is_tag_child")
    kept: Set[str] = set()
    converted: Set[str] = set()
    for r in t["rows"]:
        for k in sorted(r.kinds):
            if k in ("INT", "FLOAT", "TRUE", "FALSE"):
                ctx.check(r.outcome == "convert", "C14.table", f"{k} item is converted to str(item)", where, f"{k} -> {r.outcome} {r.action}",
                          f"a {k} child is not converted to text ({r.outcome} {r.action})", witness="TagList(1)")
                converted.add(k)
            elif node_tbl.get(k) is True:
                ctx.check(r.outcome == "keep", "C14.table", f"{k} item (a tag node) is kept as is", where, f"{k} -> {r.outcome} {r.action}",
                          f"a valid tag node of kind {k} is {r.outcome} {r.action} instead of being kept")
                kept.add(k)
            elif k in childnorm.ARG_KINDS:
                ctx.check(r.outcome == "raise" and r.action == "TypeError", "C14.table", f"{k} item raises TypeError", where,
                          f"{k} -> {r.outcome} {r.action}", f"an unsupported child of kind {k} is {r.outcome} {r.action} instead of raising TypeError",
                          witness=f"TagList(<{k}>)")
            if r.outcome == "convert":
                tgt = r.__dict__.get("target")
                ctx.check(isinstance(tgt, SList) or (isinstance(tgt, (SObj, SOpaque)) and getattr(tgt, "origin", "") != "input"),
                          "C14.table", "conversions are written to the fresh flattened list, not to the argument", where,
                          f"store into {short(tgt)}", "the normaliser edits its argument in place")
    ctx.require(converted >= {"INT", "FLOAT"} and kept >= {"STR", "TAG", "HTMLSTR"}, "normaliser table incomplete")
    strpre = [l for l in t["pre"] if l.kind == "return"]
    ok_str = any(isinstance(l.value, SList) and len(l.value.items) == 1 and isinstance(l.value.items[0], SObj)
                 and l.value.items[0].kinds <= {"STR", "JSXEXPR"} for l in strpre)
    ctx.check(ok_str, "C14.table", "a str argument is kept whole ([x])", where, "str argument", "a str passed as the iterable is split into characters",
              witness="TagList('abc').extend('de')")
    # ---- .4 flatten ------------------------------------------------------------------------------------------------
    wf = "htmltools._util:_flatten_recurse"
    dropped: Set[str] = set()
    recursed: Set[str] = set()
    for r in childnorm.flatten_table(prog):
        for k in sorted(r.kinds & childnorm.ARG_KINDS):
            want = "recurse" if k in ("LIST", "TUPLE", "TAGLIST") else "drop" if k == "NONE" else "append"
            ctx.check(r.outcome == want, "C14.flatten", f"flatten: {k} item -> {want}", wf, f"{k} -> {r.outcome}",
                      f"flatten treats a {k} item as `{r.outcome}`; the rule is `{want}` (splice lists/tuples/TagLists, drop None, keep the rest in order)",
                      witness="TagList(('a', ['b', None]))")
            if r.outcome == "drop":
                dropped.add(k)
            if r.outcome == "recurse":
                recursed.add(k)
        it = r.__dict__.get("iter_value")
        ctx.check(isinstance(it, SObj) and it is r.__dict__.get("arg"), "C14.flatten", "flatten iterates its argument forward", wf,
                  f"iterates {short(it)}", "flatten does not iterate its argument directly (order may change)")
    reach = childnorm.flatten_reach(prog)
    if reach is None:
        ctx.count("flatten worker run on its own (C14.reach)", 0)
    else:
        ctx.count("flatten worker run on its own (C14.reach)", 1)
        for kind, conds in reach:
            ctx.check(False, "C14.reach", "every normal path of the flatten worker iterates its argument", wf, f"{kind} before the loop under {conds}",
                      f"_flatten_recurse ends ({kind}) without iterating its argument when {conds}: the items of that container are dropped "
                      f"from the flattened children", witness="sep = ['-']; TagList('a', sep, 'b', sep)")
    # ---- .5 acceptance subset of is_tag_child; stored elements satisfy is_tag_node -----------------------------------------
    accepted = kept | converted | dropped | recursed
    for k in sorted(accepted):
        ctx.check(child_tbl.get(k) is True, "C14.accept", f"is_tag_child is True for accepted kind {k}", f"{CORE}:is_tag_child",
                  f"is_tag_child({k}) = {child_tbl.get(k)}",
                  f"values of kind {k} are accepted as children but is_tag_child returns {child_tbl.get(k) if child_tbl.get(k) != 'sym' else 'a content-dependent result'}",
                  witness={"INT": "is_tag_child(1)", "LIST": "is_tag_child([None])"}.get(k, f"is_tag_child(<{k}>)"))
    for k in sorted(kept):
        ctx.check(node_tbl.get(k) is True, "C14.accept", f"is_tag_node is True for stored kind {k}", f"{CORE}:is_tag_node",
                  f"is_tag_node({k}) = {node_tbl.get(k)}", f"a stored element of kind {k} does not satisfy is_tag_node")
    ctx.check(node_tbl.get("STR") is True, "C14.accept", "converted numbers (str) satisfy is_tag_node", f"{CORE}:is_tag_node", "STR", "str is not a tag node")


def _delegates(ctx: Ctx, I: Interp, meth: str, cls: str = "Tag", mod: str = CORE, kind: str = "TAG", field: str = "children",
               rule: str = "C14.delegate") -> None:
    prog = ctx.prog
    fn = prog.function(mod, f"{cls}.{meth}")
    cfg = Config()
    cfg.opaque = {f"TagList.{meth}"}
    where = f"{mod}:{cls}.{meth}"

    def mk(run: Any) -> Tuple[Dict[str, Any], Any]:
        s = SObj("self", {kind})
        b: Dict[str, Any] = {fn.args.args[0].arg: s}
        objs = []
        for a in fn.args.args[1:]:
            o = SObj(a.arg, ALL_KINDS)
            b[a.arg] = o
            objs.append(o)
        if fn.args.vararg:
            o = SObj(fn.args.vararg.arg, {"TUPLE"})
            l = SList("concrete", [SSplat(o)])
            l.pytype = "tuple"
            b[fn.args.vararg.arg] = l
            objs.append(o)
        run.__dict__["objs"] = objs
        run.__dict__["self_obj"] = s
        return b, s

    for l in I.run_function(mod, f"{cls}.{meth}", mk, cfg):
        s = l.run.__dict__["self_obj"]
        objs = l.run.__dict__["objs"]
        calls = [e for e in l.effects if e.kind == "call" and getattr(e.target, "qual", "") == f"TagList.{meth}"]
        other = [e for e in l.effects if e.kind in ("store_attr", "store_item", "store_slice", "mutcall")]
        ok = len(calls) == 1 and calls[0].key is s.attrs.get(field) and not other
        if ok:
            flat = []
            for a in calls[0].value:
                flat.append(a.value if isinstance(a, SSplat) else a)
            ok = len(flat) == len(objs) and all(x is y for x, y in zip(flat, objs))
        ctx.check(ok, rule, f"{cls}.{meth} only forwards its arguments to self.{field}.{meth}", where,
                  f"effects {[repr(e)[:60] for e in l.effects]}",
                  f"{cls}.{meth} does not simply delegate to self.{field}.{meth} with the same arguments: children added this way are lost, duplicated or not normalised")
