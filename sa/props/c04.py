"""C04 - trusted markup is emitted verbatim and escaping happens exactly once (DESIGN 4, C04)."""

from __future__ import annotations

from typing import Any, List

from ..attrmodel import ValueClass
from ..interp import Config, Interp
from ..rendercheck import NOESC2, TG, TL, model
from ..report import Ctx
from ..values import Frag, SNew, SObj, SStr, short
from .c01 import attr_loop_obligations
from .c02 import emission_obligations
from .c03 import helper_obligations, merge_obligations

CORE = "htmltools._core"


def html_algebra(ctx: Ctx) -> None:
    """HTML.__add__ / __radd__: result is HTML(); HTML operands contribute trusted fragments, others text-escaped once."""
    prog = ctx.prog
    I = Interp(prog)
    html_ci = prog.get_class("HTML")
    ctx.require(html_ci is not None, "anchor vanished: class HTML")
    for meth in ("__add__", "__radd__"):
        where = f"{CORE}:HTML.{meth}"
        m = prog.find_method(html_ci, meth)
        ctx.require(m is not None and m[0] is html_ci, f"HTML no longer defines {meth}")
        fn = m[1]
        ps = [a.arg for a in fn.args.args]

        def mk(run: Any, ps: List[str] = ps, meth: str = meth):
            s = SObj("self", {"HTMLSTR"})
            # operands the property speaks about; Python never calls __radd__ with an HTML() left operand
            # (HTML.__add__ handles it first), so that combination is not an obligation
            o = SObj("other", {"STR", "JSXEXPR", "HTMLSTR"} if meth == "__add__" else {"STR", "JSXEXPR"})
            run.__dict__["ops"] = (s, o)
            return ({ps[0]: s, ps[1]: o}, s)

        n = 0
        for l in I.run_function(CORE, f"HTML.{meth}", mk, Config()):
            s, o = l.run.__dict__["ops"]
            n += 1
            what = f"HTML.{meth}(self, other:{'|'.join(sorted(o.kinds)) if len(o.kinds) < 4 else str(len(o.kinds)) + ' kinds'})"
            extra = [a for a in l.atoms if not (isinstance(a[0], tuple) and a[0][0] in ("isinstance", "kind", "kindgroup", "is") and a[0][1] in (s.uid, o.uid))]
            cond = f" when {extra[0][0]}" if extra else ""
            if l.kind != "return":
                ctx.fail("C04.algebra", where, what + cond, f"concatenation raises {short(l.value)}{cond}")
                continue
            vc = ValueClass(l.value)
            if not ctx.check(vc.kind == "html", "C04.algebra", what + " returns HTML()", where, what + f" -> {short(l.value)}{cond}",
                             f"the result of concatenating with HTML() is {short(l.value)}, not HTML(): the mark is lost{cond}"):
                continue
            frs = [f for f in vc.frags if f.kind != "LIT" or f.a]
            order = [f.a[0] for f in frs if f.kind == "OF"]
            want_order = [s.uid, o.uid] if meth == "__add__" else [o.uid, s.uid]
            okf = len(frs) == 2 and order == want_order
            det = []
            for f in frs:
                if f.kind != "OF":
                    okf = False
                    det.append(f"unexpected fragment {f!r}")
                    continue
                is_self = f.a[0] == s.uid
                trusted = is_self or (o.kinds <= {"HTMLSTR"})
                if trusted:
                    if not (f.b == "TRUSTED" and not f.c):
                        okf = False
                        det.append(f"HTML() operand contributes {f!r} (must be verbatim)")
                else:
                    if not (tuple(f.c or ()) == ("text",)):
                        okf = False
                        det.append(f"plain operand contributes {f!r} (must be text-escaped exactly once)")
            ctx.check(okf, "C04.algebra", what + ": operands in order, HTML verbatim, plain escaped once", where,
                      what + f" -> {short(l.value)}{cond}",
                      ("; ".join(det) or f"fragments {frs} are not [left, right]") + cond,
                      witness="HTML('') + '<b>'  vs  rendering the two as adjacent children")
        ctx.min_count(f"HTML.{meth} paths", n, 1)
    # .7 UserString facts the algebra relies on
    us = prog.stdlib_module("collections").classes["UserString"]
    ctx.check("__iadd__" not in us.methods and prog.find_method(html_ci, "__iadd__") is None, "C04.mro",
              "neither HTML nor UserString defines __iadd__ (+= is __add__)", f"{CORE}:HTML", "__iadd__",
              "HTML += x is no longer HTML.__add__")
    init = prog.find_method(html_ci, "__init__")
    ctx.require(init is not None, "HTML.__init__ vanished")
    # pieces of an HTML() are HTML(): UserString.__getitem__ returns self.__class__(...), and iteration (Sequence mixin) uses it.
    # TagList + HTML(...), .extend(HTML(...)) and flatten() splat a non-str iterable into its elements, so an __iter__ that
    # hands out the characters of the underlying str turns trusted markup into plain text that gets escaped.
    import ast as _ast
    overridden = False
    for meth in ("__iter__", "__getitem__"):
        mm = prog.find_method(html_ci, meth)
        if mm is None or not mm[0].module.name.startswith("htmltools"):
            continue
        fn = mm[1]
        overridden = True
        sn = fn.args.args[0].arg
        rets = [n.value for n in _ast.walk(fn) if isinstance(n, _ast.Return) and n.value is not None]
        plain = []
        for r in rets:
            inner = r
            if isinstance(r, _ast.Call) and isinstance(r.func, _ast.Name) and r.func.id in ("iter", "reversed") and len(r.args) == 1:
                inner = r.args[0]
            if isinstance(inner, _ast.Subscript):
                inner = inner.value
            txt = _ast.unparse(inner)
            if txt in (f"{sn}.data", f"str({sn})", f"{sn}.as_string()", f"{sn}.data.__iter__()"):
                plain.append(_ast.unparse(r))
        if plain:
            ctx.fail("C04.mro", f"{CORE}:HTML.{meth}", f"return {plain[0]}",
                     f"HTML.{meth} hands out pieces of the underlying str ({plain[0]}): TagList + HTML(x), .extend(HTML(x)) and every other "
                     f"place that splats a non-str iterable store plain characters, which are then escaped - trusted markup is no longer emitted unchanged",
                     witness="TagList('a') + HTML('<b>x</b>')")
        else:
            ctx.require(False, f"HTML.{meth} is overridden in a way the model of HTML pieces does not cover")
    if not overridden:
        ctx.ok("C04.mro", "pieces of an HTML() obtained by iteration / indexing are HTML() (UserString.__getitem__ -> self.__class__)")


def exactly_once(ctx: Ctx, m: Any) -> None:
    """No interpreted flow hands trusted or already-escaped content to html_escape."""
    n = 0
    leaves = [(TL, r.leaf) for r in m.sib_rows] + [(TG, l) for l in m.frame_leaves] + [(TG, a["leaf"]) for a in m.attr_rows]
    for where, leaf in leaves:
        for e in leaf.effects:
            if e.kind != "escape":
                continue
            n += 1
            s = e.value
            bad = [f for f in s.frags if (f.kind == "OF" and (f.b in ("TRUSTED", "REPRHTML") or f.c)) or f.kind == "ACC"
                   or (f.kind == "OP" and f.c)]
            ctx.check(not bad, "C04.once", "argument of html_escape is plain, not yet escaped content", where,
                      f"html_escape({short(s)})", f"html_escape is applied to {bad[0]!r}: trusted or already-escaped content is escaped (again)" if bad else "")
    ctx.min_count("escape call sites in rendering paths", n, 2)


def check(ctx: Ctx) -> None:
    ctx.explanation = (
        "Over the rendering model extracted by Engine A: an HTML() child is emitted as a trusted, unescaped fragment on the "
        "fast path and in the sibling loop (in every layout state); a _repr_html_ object's output is inserted as is; a str "
        "child of <script>/<style> is emitted unescaped on both paths and the folded no-escape set is {script, style}; an "
        "HTML() attribute value is emitted verbatim and merging HTML() values keeps them HTML(); HTML.__add__/__radd__ are "
        "interpreted for every operand kind: the result is HTML(), operands keep their order, HTML() operands contribute "
        "verbatim fragments and every other operand one text-escaped fragment (so rendering a sum equals rendering the "
        "operands as adjacent children, for any grouping, by associativity of fragment concatenation); no rendering path "
        "passes trusted or already-escaped content to html_escape.")
    ctx.trust("Python operator fallback to __radd__", "UserString semantics as parsed from the stdlib", "Engine A abstract semantics")
    m = model(ctx)
    emission_obligations(ctx, m, "C04")
    ctx.check(m.noesc == NOESC2, "C04.noesc", "_NO_ESCAPE_TAG_NAMES == {script, style}", f"{CORE}:_NO_ESCAPE_TAG_NAMES",
              f"no-escape set {sorted(m.noesc)}", f"_NO_ESCAPE_TAG_NAMES is {sorted(m.noesc)}, not {{script, style}}",
              witness="tags.style('a > b')")
    sites = ctx.prog.global_mutation_sites(CORE, "_NO_ESCAPE_TAG_NAMES")
    ctx.check(not sites, "C04.noesc", "_NO_ESCAPE_TAG_NAMES is never mutated", f"{CORE}:_NO_ESCAPE_TAG_NAMES",
              sites[0]["text"] if sites else "", "the no-escape set is modified at run time")
    attr_loop_obligations(ctx, m, "C04", want_value=True)
    merge_obligations(ctx, "C04", only="trusted")
    helper_obligations(ctx, "C04")
    html_algebra(ctx)
    exactly_once(ctx, m)
    # consolidate_attrs hands the attributes on as stored (an HTML() value that came back as plain str would be escaped again)
    from ..report import SharedCtx
    from .c15 import partition_obligations
    partition_obligations(SharedCtx(ctx, lambda r: "C04.consolidate" if r == "C15.consolidate" else None))
    # values displayed inside a `with tag:` block: the output of _repr_html_() is kept as HTML(), HTML() values stay HTML()
    from ..interp import Interp
    from .c17 import wrapper_table
    wrapper_table(ctx, Interp(ctx.prog), rule="C04.hook", only={"REPR_ONLY", "HTMLSTR"})
    # HTMLTextDocument.render splices the rendered dependency markup (inline <script>/<style>, HTML() head content) into the text:
    # by plain str.replace, which inserts it byte for byte (a regex replacement template would interpret its backslashes)
    from .c13 import text_render
    text_render(SharedCtx(ctx, lambda r: "C04.textdoc" if r == "C13.replace" else None), Interp(ctx.prog))
