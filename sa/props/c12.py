"""C12 - dependency URLs and copied files agree (structural part; DESIGN 4, C12)."""

from __future__ import annotations

from typing import Any, Dict, List, Optional, Tuple

from ..interp import Config, Interp
from ..report import Ctx
from ..values import (ALL_KINDS, Frag, SBool, SDict, SFunc, SInt, SList, SNew, SObj, SOpaque, SSplat, SStr, SUnknown, Sym, Unmodelled, short)

CORE = "htmltools._core"
FS_MUT = {"shutil.rmtree", "os.makedirs", "shutil.copy2", "shutil.copytree", "shutil.copy", "shutil.copyfile", "os.mkdir", "os.remove", "os.unlink",
          "shutil.move", "os.rename", "os.rmdir"}
FS_MUT_METHODS = {"mkdir", "unlink", "rmdir", "write_text", "write_bytes", "touch", "rename", "replace"}


def _q(e: Any) -> str:
    t = e.target
    if e.kind == "extcall":
        return str(t)
    if e.kind == "call" and hasattr(t, "qual"):
        return t.qual
    if e.kind == "call" and hasattr(t, "name"):
        return "." + t.name
    return ""


def _is_fs_mut(e: Any) -> bool:
    q = _q(e)
    return (e.kind == "extcall" and q in FS_MUT) or (e.kind == "call" and q.startswith(".") and q[1:] in FS_MUT_METHODS)


def _op_call(v: Any, q: str) -> Optional[Dict[str, Any]]:
    """If v is the abstract result of the external call q, its argument record."""
    if isinstance(v, SStr) and len(v.frags) == 1 and v.frags[0].kind == "OP" and v.frags[0].a == ("call", q):
        return v.frags[0].b
    return None


def _spm_item(v: Any, key: str) -> Optional[Any]:
    """If v is source_path_map(...)[key], the call record."""
    if isinstance(v, SObj) and v.meta.get("item_of") is not None and v.meta["item_of"][1] == key:
        base = v.meta["item_of"][0]
        c = base.meta.get("call") if isinstance(base, SObj) else None
        if c is not None and getattr(c["func"], "qual", "") == "HTMLDependency.source_path_map":
            return c
    return None


def _carried_in(v: Any, depth: int = 0, seen: Optional[set] = None) -> Optional[Any]:
    """A loop-carried variable (one the loop body itself rebinds) among the values v was computed from, if any."""
    seen = set() if seen is None else seen
    if depth > 10 or id(v) in seen:
        return None
    seen.add(id(v))
    if isinstance(v, SObj) and v.meta.get("carried"):
        return v
    if isinstance(v, SUnknown) and v.why.startswith("loop-carried "):
        return v
    subs: List[Any] = []
    if isinstance(v, SStr):
        for f in v.frags:
            subs += [f.a, f.b, f.c]
    elif isinstance(v, SObj):
        subs += [v.meta.get(k) for k in ("attr_of", "item_of", "call", "copy_of", "list_of")]
    elif isinstance(v, SOpaque):
        subs += list(v.__dict__.values())
    elif isinstance(v, SList):
        subs += list(v.items or []) + [v.base, v.elt]
    elif isinstance(v, SSplat):
        subs.append(v.value)
    elif isinstance(v, dict):
        subs += list(v.values())
    elif isinstance(v, (list, tuple)):
        subs += list(v)
    for x in subs:
        if isinstance(x, (Sym, dict, list, tuple, Frag)) and not isinstance(x, str):
            r = _carried_in(x, depth + 1, seen) if not isinstance(x, Frag) else _carried_in([x.a, x.b, x.c], depth + 1, seen)
            if r is not None:
                return r
    return None


def _carried_name(v: Any) -> str:
    if isinstance(v, SUnknown):
        return v.why.split(" ", 1)[1]
    return str(getattr(v, "name", "?")).split("@")[0]


def copy_to_obligations(ctx: Ctx, I: Interp) -> None:
    prog = ctx.prog
    where = f"{CORE}:HTMLDependency.copy_to"
    fn = prog.function(CORE, "HTMLDependency.copy_to")
    ps = [a.arg for a in fn.args.args]
    ctx.require(len(ps) == 3, "copy_to signature changed")
    cfg = Config()
    cfg.opaque_all = True
    cfg.coarse_counts = True

    def mk(run: Any):
        s = SObj("self", {"HTMLDEP"})
        p, iv = SObj(ps[1], {"STR"}), SBool(("param", "include_version"))
        run.__dict__["o"] = (s, p, iv)
        return ({ps[0]: s, ps[1]: p, ps[2]: iv}, s)

    n_mut = n_raise = n_raise_listed = 0
    for l in I.run_function(CORE, "HTMLDependency.copy_to", mk, cfg):
        s, p, iv = l.run.__dict__["o"]
        eff = l.effects
        spm = [e for e in eff if e.kind == "call" and _q(e) == "HTMLDependency.source_path_map"]
        ctx.require(len(spm) >= 1 and spm[0].key is s, "copy_to does not start from self.source_path_map()")
        kw = (spm[0].extra or {}).get("kwargs", {})
        ctx.check(kw.get("include_version") is iv and kw.get("lib_prefix", 0) is None, "C12.P1",
                  "copy_to takes the directory name from source_path_map(lib_prefix=None, include_version=<own parameter>)", where,
                  f"source_path_map({ {k: short(v) for k, v in kw.items()} })",
                  "copy_to does not derive its target directory from source_path_map with its own include_version: files land in a directory the URLs do not point to",
                  witness="dep.copy_to(d, include_version=False) vs dep.as_dict(include_version=False)")
        muts = [i for i, e in enumerate(eff) if _is_fs_mut(e)]
        empty_src = any(str(lbl) == "== ''" for a, lbl in l.atoms)
        if empty_src:
            fs = [e for e in eff if e.kind in ("extcall", "fs") and (str(e.target).startswith(("os.", "shutil.", "pathlib.")) or e.kind == "fs")]
            ctx.check(l.kind == "return" and not fs, "C12.P4", "a dependency without a local source copies nothing (returns before any filesystem call)", where,
                      f"empty source: {[str(e.target) for e in fs]}", "URL-sourced / source-less dependencies touch the filesystem")
            continue
        loops = [(i, e) for i, e in enumerate(eff) if e.kind == "loop"]
        # the verification loop: the first loop whose body tests os.path.exists(join(source, f)) and can raise
        ver = None
        for i, e in loops:
            body = [x for x in eff if x.__dict__.get("in_loop") == e.target]
            ex = [x for x in body if x.kind == "extcall" and _q(x) == "os.path.exists"]
            good = False
            for x in ex:
                j = _op_call(x.value[0], "os.path.join") if x.value else None
                if j is not None and j["args"] and _spm_item(j["args"][0], "source") is not None:
                    good = True
            if good and not any(_is_fs_mut(x) for x in body):
                ver = (i, e)
                break
        if l.kind == "raise":
            n_raise += 1
            if l.run.path.memo.get(("attr", s.uid, "all_files")) != 0:
                n_raise_listed += 1
            before = [eff[i] for i in muts]
            before = [e for e in before if not e.__dict__.get("in_loop") or True]
            ctx.check(not muts, "C12.P4", "a missing listed file raises before the target directory is touched", where,
                      f"raise after {[_q(eff[i]) for i in muts]}",
                      f"copy_to raises for a missing source file only after {[_q(eff[i]) for i in muts][:3]}: the previous copy of the dependency is already "
                      f"destroyed / partly rewritten", witness="dep = HTMLDependency(..., script={'src': 'missing.js'}); dep.copy_to(dir_with_old_copy)")
            continue
        if not muts:
            continue
        n_mut += 1
        if not ctx.check(ver is not None, "C12.P4", "a verification pass over the file list precedes every change of the target directory", where,
                         f"filesystem changes {[_q(eff[i]) for i in muts][:4]} without a preceding existence check of every listed file",
                         "copy_to changes the target directory without first verifying that every listed source file exists",
                         witness="dep with a missing script file: copy_to must raise and leave the old copy intact"):
            continue
        vi, ve = ver
        early = [i for i in muts if i < vi or eff[i].__dict__.get("in_loop") == ve.target]
        ctx.check(not early, "C12.P4", "no filesystem change happens before or inside the verification pass", where,
                  f"{[_q(eff[i]) for i in early]} before verification", "the target directory is modified before all listed files were verified")
        # the copy loop iterates the same list
        cp = [(i, e) for i, e in loops if i > vi and any(_is_fs_mut(x) for x in eff if x.__dict__.get("in_loop") == e.target)]
        def _same_files(v: Any) -> bool:
            if v is ve.value:
                return True
            vrec = [r for r in l.run.loops if r.__dict__.get("loop_key") == ve.target]
            if vrec and vrec[0].__dict__.get("sample_exited"):
                return True     # the sampled verification iteration is one that raises: it says nothing about what a completed pass collected
            # a list filled inside the verification loop, one entry per verified file
            from ..loopbuilt import contributions
            if isinstance(v, SList) and v.mode != "map":
                cs = contributions(l, v)
                seen_ = 0
                while not cs and isinstance(v.__dict__.get("entry"), SList) and seen_ < 4:
                    v = v.__dict__["entry"]      # the list as it was when the later loop started
                    cs = contributions(l, v)
                    seen_ += 1
                return bool(cs) and all(c["how"] == "append" and c["loop"] is not None and c["loop"].__dict__.get("loop_key") == ve.target for c in cs)
            return False
        ctx.check(len(cp) >= 1 and all(_same_files(e.value) for _, e in cp), "C12.P4", "the copy loop walks the same file list that was verified", where,
                  f"copy loop over {[short(e.value) for _, e in cp]} / verified {short(ve.value)}", "the files copied are not the files verified")
        # each file goes from <source>/f to <target>/f: neither base directory is a variable the loop itself rebinds
        for _, ce in cp:
            for x in eff:
                if x.__dict__.get("in_loop") != ce.target or not _is_fs_mut(x) or x.kind != "extcall":
                    continue
                for a in list(x.value or []):
                    cv = _carried_in(a)
                    ctx.check(cv is None, "C12.P3", "inside the copy loop every path is computed from the fixed source/target directories and the current file", where,
                              f"{_q(x)}: {_carried_name(cv) if cv is not None else 'fixed bases'}",
                              f"{_q(x)} gets a path computed from `{_carried_name(cv)}`, which the loop body rebinds: from the second "
                              f"file on, the file lands somewhere else than the URL says", witness="script=[{'src': 'js/a.js'}, {'src': 'b.js'}]")
        # rmtree (guarded by existence of the target) precedes mkdir and copies
        rm = [i for i in muts if _q(eff[i]) == "shutil.rmtree"]
        rest = [i for i in muts if _q(eff[i]) != "shutil.rmtree"]
        target_exists = None
        for i, e in enumerate(eff):
            if e.kind == "extcall" and _q(e) == "os.path.exists" and not e.__dict__.get("in_loop") and i > vi:
                atom = [(a, v) for a, v in l.atoms if isinstance(a, tuple) and a[0] == "extcall" and a[1] == "os.path.exists" and a[3] - 1 == i]
                if atom:
                    target_exists = atom[0][1]
        if target_exists is True:
            ctx.check(len(rm) == 1 and all(rm[0] < i for i in rest), "C12.P4", "an existing target directory is removed before anything is created or copied", where,
                      f"order {[_q(eff[i]) for i in muts][:5]}", "stale contents of the dependency's target directory are not removed first",
                      witness="copy_to into a directory that holds files of an older version")
        elif target_exists is False:
            ctx.check(not rm, "C12.P4", "rmtree only runs when the target exists", where, f"rmtree with exists={target_exists}", "rmtree is called on a missing directory")
        else:
            # no existence test of the target on this path: the directory must be cleared unconditionally
            ctx.check(len(rm) >= 1 and all(rm[0] < i for i in rest), "C12.P4", "a target directory whose existence is not tested is cleared before anything is created or copied", where,
                      f"order {[_q(eff[i]) for i in muts][:5]} (no existence test of the target)", "stale contents of the dependency's target directory are never removed",
                      witness="copy_to into a directory that holds files of an older version")
        # target dir = join(path, href)
        for i in rm:
            pass
    ctx.min_count("copy_to paths that change the filesystem", n_mut, 2)
    ctx.check(n_raise >= 1, "C12.P4", "copy_to has a path that raises for a missing file", where, "no raising path", "a missing listed file is not reported",
              witness="HTMLDependency(..., script={'src': 'missing.js'}).copy_to(d)")
    ctx.check(n_raise_listed >= 1, "C12.P4", "copy_to raises for a missing file when the files are listed explicitly (all_files not set)", where,
              f"raising paths: {n_raise}, of which with all_files unset: {n_raise_listed}", "a missing explicitly listed file is not reported: the raise only happens with all_files=True",
              witness="HTMLDependency(..., script={'src': 'missing.js'}).copy_to(d)")
    # which files: all_files -> directory listing, else script.src + stylesheet.href
    cfg2 = Config()
    cfg2.opaque_all = True
    cfg2.coarse_counts = True
    cfg2.loop_effects = False
    seen = set()
    for l in I.run_function(CORE, "HTMLDependency.copy_to", mk, cfg2):
        s, p, iv = l.run.__dict__["o"]
        af = l.run.path.memo.get(("attr", s.uid, "all_files"))
        vl = [e for e in l.effects if e.kind == "loop"]
        if af is None or not vl:
            continue
        V = vl[0].value
        if af == 0:
            seen.add("all")
            globbed = isinstance(V, SList) and V.mode == "map" and isinstance(V.base, SOpaque) and (V.base.__dict__.get("method_call") or {}).get("name") in ("glob", "iterdir", "rglob")
            ctx.check(bool(globbed), "C12.P4", "with all_files the file list is the listing of the source directory", where, f"all_files: {short(V)}",
                      "with all_files=True the files copied are not the contents of the source directory")
        else:
            seen.add("listed")
            keys = []
            items = V.items if isinstance(V, SList) and V.mode == "concrete" else []
            for it in items:
                m = it.value if isinstance(it, SSplat) else it
                if isinstance(m, SList) and m.mode == "map" and isinstance(m.elt, SObj) and m.elt.meta.get("item_of") is not None:
                    src = m.base
                    keys.append(((src.meta.get("attr_of") or (None, None))[1] if isinstance(src, SObj) else None, m.elt.meta["item_of"][1]))
                else:
                    keys.append(("?", short(m)))
            ctx.check(keys == [("script", "src"), ("stylesheet", "href")], "C12.P3", "the copier reads script[*].src and stylesheet[*].href, unquoted", where,
                      f"explicit file list from {keys}", f"the copier builds its file list from {keys}, not from the same src/href fields the URLs are made of",
                      witness="dep with script={'src': 'a b.js'}: URL 'a%20b.js' must name the copied file 'a b.js'")
    ctx.require(seen == {"all", "listed"}, f"copy_to: file-list cases found {sorted(seen)}")


def as_dict_obligations(ctx: Ctx, I: Interp) -> None:
    prog = ctx.prog
    where = f"{CORE}:HTMLDependency.as_dict"
    fn = prog.function(CORE, "HTMLDependency.as_dict")
    cfg = Config()
    cfg.opaque_all = True
    cfg.coarse_counts = True

    def mk(run: Any):
        s = SObj("self", {"HTMLDEP"})
        lp, iv = SObj("lib_prefix", {"STR", "NONE"}), SBool(("param", "include_version"))
        run.__dict__["o"] = (s, lp, iv)
        return ({fn.args.args[0].arg: s, "lib_prefix": lp, "include_version": iv}, s)

    n = 0
    for l in I.run_function(CORE, "HTMLDependency.as_dict", mk, cfg):
        s, lp, iv = l.run.__dict__["o"]
        ctx.require(l.kind == "return", "as_dict raises")
        spm = [e for e in l.effects if e.kind == "call" and _q(e) == "HTMLDependency.source_path_map"]
        kw = (spm[0].extra or {}).get("kwargs", {}) if spm else {}
        ctx.check(len(spm) == 1 and kw.get("lib_prefix") is lp and kw.get("include_version") is iv, "C12.P1",
                  "as_dict takes the URL prefix from source_path_map(lib_prefix=, include_version=) with its own parameters", where,
                  f"source_path_map({ {k: short(v) for k, v in kw.items()} })", "as_dict does not forward lib_prefix / include_version to source_path_map")
        quotes = [e for e in l.effects if e.kind == "extcall" and _q(e) == "urllib.parse.quote"]
        # (a path on which an item path is not encoded at all is reported by the join obligation below)
        for e in quotes:
            n += 1
            extra = dict(e.extra or {})
            extra.pop("in_loop", None)
            plain = len(e.value) == 1 and not extra
            ctx.check(plain, "C12.P3", "paths are percent-encoded with urllib.parse.quote(path) (default safe characters)", where,
                      f"quote({[short(x) for x in e.value]}, { {k: short(v) for k, v in extra.items()} })",
                      f"urllib.parse.quote is called with {extra}: a character that must be escaped in a URL path (such as a literal '%') is left as is, so the URL "
                      f"no longer decodes to the copied file's name", witness="script={'src': '100%.js'} -> URL must be '100%25.js'")
            v = e.value[0] if e.value else None
            io = v.meta.get("item_of") if isinstance(v, SObj) else None
            ctx.check(io is not None and io[1] in ("src", "href"), "C12.P3", "the encoded path is the item's src/href", where, f"quote({short(v)})", "the URL is not built from the item's own src/href")
        joins = [e for e in l.effects if e.kind == "extcall" and _q(e) == "posixpath.join"]
        for e in joins:
            a0 = e.value[0] if e.value else None
            okj = _spm_item(a0, "href") is not None and len(e.value) == 2 and _op_call(e.value[1], "urllib.parse.quote") is not None
            conds = [str(lbl) for a_, lbl in l.atoms if isinstance(a_, tuple) and a_[0] in ("extcall", "truthy", "eq", "in", "cmp")][:2]
            ctx.check(okj, "C12.P3", "URL = posixpath.join(source_path_map()['href'], quote(path))", where, f"posixpath.join({[short(x) for x in e.value]})",
                      f"an item URL is built as posixpath.join({', '.join(short(x) for x in e.value)})" + (f" when {conds}" if conds else "") +
                      ": not the source href joined with the percent-encoded relative path, so the URL does not decode to the name of the copied file",
                      witness="script={'src': 'a%20b.js'}: the file 'a%20b.js' is copied, the URL must be 'a%2520b.js'")
        ctx.check(len(joins) >= 2, "C12.P3", "script and stylesheet URLs are both joined to the href", where, f"{len(joins)} joins", "not every item URL is prefixed with the dependency's href")
    ctx.min_count("as_dict quote sites", n, 2)


def source_path_map_table(ctx: Ctx, I: Interp) -> None:
    prog = ctx.prog
    where = f"{CORE}:HTMLDependency.source_path_map"
    fn = prog.function(CORE, "HTMLDependency.source_path_map")
    cfg = Config()
    cfg.opaque_all = True

    def mk(run: Any):
        s = SObj("self", {"HTMLDEP"})
        lp, iv = SObj("lib_prefix", {"STR", "NONE"}), SBool(("param", "include_version"))
        run.__dict__["o"] = (s, lp, iv)
        return ({fn.args.args[0].arg: s, "lib_prefix": lp, "include_version": iv}, s)

    seen = set()
    for l in I.run_function(CORE, "HTMLDependency.source_path_map", mk, cfg):
        s, lp, iv = l.run.__dict__["o"]
        if l.kind != "return":
            continue
        v = l.value
        ctx.require(isinstance(v, SDict) and set(v.items) == {"source", "href"}, f"source_path_map returns {short(v)}")
        src = s.attrs.get("source")
        if isinstance(src, SObj) and src.kinds <= {"NONE"}:
            seen.add("none")
            ctx.check(v.items["source"] == "" and v.items["href"] == "", "C12.P6", "no source -> empty source and href", where, f"none: {short(v)}", "a source-less dependency gets a non-empty path")
            continue
        has_href = None
        for a, val in l.atoms:
            if isinstance(a, tuple) and a[0] == "in" and a[1] == "href":
                has_href = bool(val)
        if has_href:
            seen.add("url")
            hv = v.items["href"]
            ok = v.items["source"] == "" and isinstance(hv, SObj) and hv.meta.get("item_of") is not None and hv.meta["item_of"][0] is src and hv.meta["item_of"][1] == "href"
            ctx.check(ok, "C12.P6", "URL source -> href is the source's href, nothing to copy", where, f"url: {short(v)}", "a URL-sourced dependency does not use its href verbatim")
            continue
        seen.add("local")
        h = v.items["href"]
        ivv = l.run.path.memo.get(("param", "include_version"))
        lpt = None
        for a, val in l.atoms:
            if isinstance(a, tuple) and a[0] in ("truthy", "truthy-kind", "is", "nonempty") and a[1] == lp.uid:
                lpt = val
        # href built from name [ "-" version ]
        base = h
        j = _op_call(h, "posixpath.join")
        if j is not None:
            ctx.check(len(j["args"]) == 2 and j["args"][0] is lp, "C12.P6", "with a lib prefix the href is posixpath.join(lib_prefix, name[-version])", where,
                      f"join({[short(x) for x in j['args']]})", "the lib prefix is not joined in front of the directory name")
            base = j["args"][1]
        else:
            ctx.check(lp.kinds <= {"NONE"} or lpt in (False, "falsy-singleton") or not _truthy_lp(l, lp), "C12.P6", "without a lib prefix the href is name[-version]", where,
                      f"href {short(h)} (lib_prefix {sorted(lp.kinds)})", "a non-empty lib prefix is not put in front of the dependency directory")
        frs = list(base.frags) if isinstance(base, SStr) else []
        shape = [(f.kind, f.a if f.kind == "LIT" else (f.a[1].split(".")[-1] if f.kind == "OF" else str(f.a))) for f in frs]
        if ivv == 0:
            ok = shape == [("OF", "name"), ("LIT", "-"), ("OF", "version")]
        else:
            ok = shape == [("OF", "name")] or (isinstance(base, SObj) and (base.meta.get("attr_of") or (None, None))[1] == "name")
        ctx.check(ok, "C12.P6", f"local source, include_version={ivv == 0}: directory name is name{'-version' if ivv == 0 else ''}", where,
                  f"include_version={ivv == 0}: {shape or short(base)}", f"the dependency directory is {shape or short(base)} for include_version={ivv == 0}",
                  witness="HTMLDependency('x','1.2', source={'subdir': 'd'}).source_path_map(include_version=False)['href'] == 'lib/x'")
    ctx.require(seen == {"none", "url", "local"}, f"source_path_map: cases found {sorted(seen)}")


def _truthy_lp(l: Any, lp: SObj) -> bool:
    res = True if not (lp.kinds <= {"NONE"}) else False
    for a, v in l.atoms:
        if isinstance(a, tuple) and a[0] == "truthy-kind" and a[1] == lp.uid and v == "falsy-singleton":
            return False
        if isinstance(a, tuple) and a[0] in ("truthy", "nonempty") and a[1] == lp.uid:
            res = bool(v)
    return res


def _cond_text(a: Any) -> str:
    """A path condition without the run-specific object numbers."""
    if isinstance(a, tuple):
        return "(" + " ".join(_cond_text(x) for x in a if not isinstance(x, int)) + ")"
    return str(a)


def save_html_obligations(ctx: Ctx, I: Interp) -> None:
    prog = ctx.prog
    where = f"{CORE}:HTMLDocument.save_html"
    fn = prog.function(CORE, "HTMLDocument.save_html")
    names = [a.arg for a in fn.args.args + fn.args.kwonlyargs]
    ctx.require(names[1:] == ["file", "libdir", "include_version"], "HTMLDocument.save_html signature changed")
    cfg = Config()
    cfg.opaque_all = True
    cfg.coarse_counts = True

    def mk(run: Any):
        s = SObj("self", {"HTMLDOC"})
        f, ld, iv = SObj("file", {"STR"}), SObj("libdir", {"STR", "NONE"}), SBool(("param", "include_version"))
        run.__dict__["o"] = (s, f, ld, iv)
        return ({names[0]: s, "file": f, "libdir": ld, "include_version": iv}, s)

    n = 0
    for l in I.run_function(CORE, "HTMLDocument.save_html", mk, cfg):
        s, f, ld, iv = l.run.__dict__["o"]
        if l.kind != "return":
            continue
        n += 1
        ctx.check(l.value is f, "C12.P5", "save_html returns the path it was given", where, f"returns {short(l.value)}", "save_html does not return the file path it wrote")
        rd = [e for e in l.effects if e.kind == "call" and _q(e) == "HTMLDocument.render"]
        kw = (rd[0].extra or {}).get("kwargs", {}) if rd else {}
        ctx.check(len(rd) == 1 and kw.get("lib_prefix") is ld and kw.get("include_version") is iv, "C12.P2", "render(lib_prefix=libdir, include_version=include_version)", where,
                  f"render({ {k: short(v) for k, v in kw.items()} })", "the URLs are rendered with a different prefix/version setting than the one used for copying")
        loops = [e for e in l.effects if e.kind == "loop"]
        cps = [e for e in l.effects if e.kind == "call" and (_q(e) == "HTMLDependency.copy_to" or _q(e) == ".copy_to")]
        okl = len(loops) == 1 and isinstance(loops[0].value, SObj) and (loops[0].value.meta.get("item_of") or (None, None))[1] == "dependencies"
        ctx.check(okl, "C12.P2", "exactly the rendered dependencies are copied", where, f"loop over {[short(e.value) for e in loops]}", "the dependencies copied are not rendered['dependencies']")
        body_paths_with_copy = [e for e in cps if e.__dict__.get("in_loop")]
        conds = [(a, v) for a, v in l.atoms if isinstance(a, tuple) and a[0] in ("extcall", "truthy", "eq", "cmp", "in") and not (a[0] in ("truthy", "truthy-kind") and a[1] == ld.uid)]
        ctx.check(len(body_paths_with_copy) == 1 and not conds, "C12.P2", "every dependency is copied unconditionally", where,
                  f"{len(body_paths_with_copy)} copy_to calls under {sorted({_cond_text(a) for a, _ in conds})}",
                  f"a dependency is not copied on some path (conditions {sorted({_cond_text(a) for a, _ in conds})}): stale or missing files stay in its target directory while the URLs point there",
                  witness="save_html twice after the source files changed (same version)")
        for e in body_paths_with_copy:
            kwc = (e.extra or {}).get("kwargs", {})
            args = list(e.value)
            dest = args[0] if args else kwc.get("path")
            ctx.check(kwc.get("include_version") is iv or (len(args) > 1 and args[1] is iv), "C12.P2", "copy_to gets the same include_version", where,
                      f"copy_to({[short(x) for x in args]}, { {k: short(v) for k, v in kwc.items()} })", "copy_to is not given the include_version used for the URLs")
            j = _op_call(dest, "os.path.join")
            ldt = _truthy_lp(l, ld)
            if ldt:
                ctx.check(j is not None and len(j["args"]) == 2 and j["args"][1] is ld, "C12.P2", "files go to dirname(file)/libdir", where, f"dest {short(dest)}", "the copy destination is not dirname(file)/libdir")
        w = [e for e in l.effects if e.kind == "call" and _q(e) == ".write"]
        op = [e for e in l.effects if e.kind == "fs" and e.target == "open"]
        ctx.check(len(op) == 1 and op[0].value and op[0].value[0] is f and len(w) == 1, "C12.P5", "the markup is written to the given file", where,
                  f"open({[short(x) for x in (op[0].value if op else [])]})", "the document is not written to the path given")
    ctx.min_count("save_html paths", n, 1)
    for cls in ("Tag", "TagList"):
        w2 = f"{CORE}:{cls}.save_html"
        fn2 = prog.function(CORE, f"{cls}.save_html")
        nm = [a.arg for a in fn2.args.args + fn2.args.kwonlyargs]

        def mk2(run: Any, cls: str = cls, nm: List[str] = nm):
            s = SObj("self", {"TAG" if cls == "Tag" else "TAGLIST"})
            b = {nm[0]: s}
            objs = []
            for x in nm[1:]:
                o = SObj(x, {"STR"})
                b[x] = o
                objs.append(o)
            run.__dict__["o"] = (s, objs)
            return (b, s)

        for l in I.run_function(CORE, f"{cls}.save_html", mk2, cfg):
            s, objs = l.run.__dict__["o"]
            sv = [e for e in l.effects if e.kind == "call" and _q(e) == "HTMLDocument.save_html"]
            ok = len(sv) == 1 and isinstance(sv[0].key, SNew) and sv[0].key.cls_name == "HTMLDocument" and sv[0].key.args and sv[0].key.args[0] is s
            passed = list(sv[0].value) + list(((sv[0].extra or {}).get("kwargs") or {}).values()) if sv else []
            ok = ok and all(any(p is o for p in passed) for o in objs)
            ret = l.value
            rok = isinstance(ret, (SObj, SStr, SOpaque)) and l.kind == "return" and ret is not None
            if isinstance(ret, SStr):
                rok = len(ret.frags) == 1 and ret.frags[0].kind == "OP" and ret.frags[0].a == ("call", "HTMLDocument.save_html")
            ctx.check(bool(ok) and bool(rok), "C12.P5", f"{cls}.save_html forwards file/libdir/include_version to HTMLDocument(self).save_html and returns its result", w2,
                      f"calls {[(_q(e), [short(x) for x in e.value]) for e in sv]} returns {short(ret)}",
                      f"{cls}.save_html does not forward all three arguments to HTMLDocument(self).save_html or does not return the written path")


def check(ctx: Ctx) -> None:
    ctx.explanation = (
        "Structural part only (nothing is copied or written). Engine A effect traces with callees opaque: P1 as_dict and copy_to both "
        "take the directory name from source_path_map(...)['href'] with their own include_version; P2 HTMLDocument.save_html renders "
        "with lib_prefix=libdir and the same include_version it hands to copy_to, and copies every rendered dependency "
        "unconditionally into dirname(file)/libdir; P3 URLs are posixpath.join(href, urllib.parse.quote(path)) with default safe "
        "characters and the copier reads the same src/href fields unquoted; P4 in copy_to: no filesystem call for an empty source, a "
        "verification pass over the file list (os.path.exists of join(source, f), raising) precedes every change of the target, the "
        "raise path has touched nothing, the copy loop walks the verified list, rmtree of an existing target precedes mkdir and copies; "
        "P5 save_html returns/forwards the path; P6 case table of source_path_map. Byte identity, percent-decoding and filesystem "
        "faults are runtime matters and are not decided.")
    ctx.trust("urllib.parse.quote/unquote are inverse on paths with default safe characters", "os/shutil semantics", "Engine A abstract semantics")
    I = Interp(ctx.prog)
    # (syntactic scan first: it needs no model of the function bodies, so it still reports when they cannot be interpreted)
    # nothing on the URL / copy path is remembered between calls: every save recomputes paths from the dependency and copies again
    from .. import nondet
    idx = nondet.index_functions(ctx.prog)
    roots = [f"{CORE}:{q}" for q in ("HTMLDocument.save_html", "Tag.save_html", "TagList.save_html", "HTMLDependency.copy_to", "HTMLDependency.as_dict",
                                       "HTMLDependency.source_path_map") if f"{CORE}:{q}" in idx]
    ctx.require(len(roots) >= 4, "save_html / copy_to anchors vanished")
    for q in nondet.closure(ctx.prog, idx, roots):
        f = idx[q]
        if not f.mod.name.startswith("htmltools"):
            continue
        for d in nondet.cache_decorators(f):
            ctx.fail("C12.P2", q, f"@{d}",
                     f"`{q}` on the save_html / copy_to path is memoised (@{d}): a path or directory computed for an earlier call (another working directory, "
                     f"another state of the file system) is reused, so the URLs or the copied files no longer correspond to the current source",
                     witness="save a dependency with a relative subdir, os.chdir(), save another one with the same relative subdir")
        from .c18 import ALLOWED_GLOBALS
        for node, qual, what in nondet.global_state_sites(ctx.prog, idx, f, ALLOWED_GLOBALS):
            ctx.fail("C12.P2", q, qual, f"`{q}` on the save_html / copy_to path reads or writes {what}: a directory or URL remembered from an earlier dependency "
                     f"or call is handed to a later one, so the files copied are not the ones the URLs name",
                     witness="two dependencies with the same subdir in different packages, saved in one process", line=getattr(node, "lineno", None))
    ctx.ok("C12.P2", "no function on the save_html / copy_to path carries a cache decorator or keeps module-level state")
    copy_to_obligations(ctx, I)
    as_dict_obligations(ctx, I)
    source_path_map_table(ctx, I)
    save_html_obligations(ctx, I)
    # the settings used for the URLs are the ones save_html copies with: every link of the call chain forwards them
    from .c11 import forwarding_chain
    forwarding_chain(ctx, I, "C12.P2")
    # the dependencies copied by save_html are those of render(): they must be the resolved list that the markup links
    from .c10 import render_reports_resolved
    render_reports_resolved(ctx, I, rule="C12.P2")
