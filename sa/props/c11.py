"""C11 - HTMLDocument builds one head/body and hoists every dependency into head (DESIGN 4, C11)."""

from __future__ import annotations

from ast import unparse as ast_unparse

import ast
from typing import Any, Dict, List, Optional, Tuple

from ..interp import Config, Interp
from ..report import Ctx
from ..values import (ALL_KINDS, META_KINDS, NODE_KINDS, Frag, SBool, SDict, SFunc, SInt, SList, SNew, SObj, SOpaque, SSplat, SStr, Sym, Unmodelled, short)
from .c09 import _expanded, _from_tagify

CORE = "htmltools._core"
GEN = f"{CORE}:HTMLDocument._gen_html_tag_tree"
HOIST = f"{CORE}:HTMLDocument._hoist_head_content"


def _q(c: Any) -> str:
    return getattr((c or {}).get("func"), "qual", "") if c else ""


def _call_of(v: Any) -> Optional[Dict[str, Any]]:
    if isinstance(v, SObj):
        return v.meta.get("call")
    if isinstance(v, SOpaque):
        return v.__dict__.get("call")
    return None


def listing_tokens(v: Any, leaf: Any = None) -> Optional[Tuple[Any, ...]]:
    """Canonical form of `";".join(d.name + "[" + str(d.version) + "]" for d in deps)` (comprehension or explicit loop)."""
    if not (isinstance(v, SStr) and len(v.frags) == 1 and v.frags[0].kind == "OP" and isinstance(v.frags[0].a, tuple) and v.frags[0].a[0] == "join"):
        return None
    sep = v.frags[0].a[1]
    pay = v.frags[0].b or {}
    item, var, over = pay.get("item"), pay.get("var"), pay.get("over")
    seq = pay.get("seq")
    if item is None and isinstance(seq, SList) and seq.mode == "carried" and leaf is not None:
        from ..loopbuilt import contributions, initial_items, iter_base
        cs = contributions(leaf, seq)
        if len(cs) == 1 and cs[0]["how"] == "append" and cs[0]["loop"] is not None and not initial_items(seq):
            item, var, over = cs[0]["value"], cs[0]["element"], iter_base(cs[0]["iter"])
            if isinstance(item, str):
                item = SStr([Frag("LIT", item)])
    if not isinstance(item, SStr) or not isinstance(var, SObj) or pay.get("cond"):
        return None
    toks = []
    for f in item.frags:
        if f.kind == "LIT":
            toks.append(("LIT", f.a))
        elif f.kind == "OF" and f.b == "STR()":
            toks.append(("STR-OF", f.a[1].split(".")[-1]))
        elif f.kind == "OF":
            toks.append(("FIELD", f.a[1].split(".")[-1], f.b))
        elif f.kind == "OP":
            d = f.b.get("value") if isinstance(f.b, dict) else None
            ao = d.meta.get("attr_of") if isinstance(d, SObj) else None
            toks.append(("STR-OF", ao[1] if ao else str(f.a)))
        else:
            toks.append((f.kind,))
    return (sep, tuple(toks), over)


def container_adds(effects: List[Any], container: Any, depth: int = 0, ctor: bool = False) -> List[Tuple[str, Any, int]]:
    """What is added to `container` (the head tag, or a TagList) on this path, in order: ('item', value, position) for one node,
    ('map', <comprehension>, position) for a whole computed list, ('other', value, position) otherwise. append(x) == extend([x]);
    extend([]) adds nothing; adding a TagList that was itself built on this path adds what that list was given (constructor
    arguments, then its own appends/extends)."""
    out: List[Tuple[str, Any, int]] = []
    if depth > 4:
        return out

    def one(v_: Any, pos_: int) -> None:
        if isinstance(v_, SNew) and v_.cls_name == "TagList":
            for a_ in list(v_.args) + list(v_.star):
                one(a_, pos_)
            out.extend((k_, x_, pos_) for k_, x_, _ in container_adds(effects, v_, depth + 1))
        elif isinstance(v_, SList) and v_.mode == "map":
            out.append(("map", v_, pos_))
        elif isinstance(v_, SList) and v_.mode == "concrete":
            for i_ in v_.items:
                if isinstance(i_, SSplat):
                    sv_ = i_.value
                    out.append(("map" if isinstance(sv_, SList) and sv_.mode == "map" else "other", sv_, pos_))
                else:
                    one(i_, pos_)
        elif isinstance(v_, (list, tuple)):
            for i_ in v_:
                one(i_, pos_)
        else:
            out.append(("item", v_, pos_))

    if ctor and isinstance(container, SNew) and container.cls_name == "TagList":
        for a_ in list(container.args) + list(container.star):
            one(a_, -1)
    for pos, e in enumerate(effects):
        if e.kind != "call" or e.key is not container:
            continue
        q_ = getattr(e.target, "qual", "")
        if q_ in ("Tag.append", "TagList.append"):
            for v in e.value or []:
                one(v, pos)
        elif q_ in ("Tag.extend", "TagList.extend") and e.value:
            v = e.value[0]
            if isinstance(v, (SList, list, tuple)) or (isinstance(v, SNew) and v.cls_name == "TagList"):
                one(v, pos)
            else:
                out.append(("other", v, pos))
    return out


def hoist_listing_shapes(prog: Any, I: Interp) -> List[Tuple[Any, Any]]:
    """(separator, item tokens) of every dependency listing HTMLDocument._hoist_head_content can write (for sibling comparison)."""
    fn = prog.function(CORE, "HTMLDocument._hoist_head_content")
    ps = [a.arg for a in fn.args.args + fn.args.kwonlyargs]

    def mk(run: Any):
        x = SObj(ps[0], {"TAG"})
        return ({ps[0]: x, "lib_prefix": SObj("lib_prefix", {"STR", "NONE"}), "include_version": SBool(("param", "include_version"))}, None)

    cfg = Config()
    cfg.opaque_all = True
    out: List[Tuple[Any, Any]] = []
    for l in I.run_function(CORE, "HTMLDocument._hoist_head_content", mk, cfg):
        if l.kind != "return":
            continue
        heads = []
        for e in l.effects:
            if e.kind == "call" and getattr(e.target, "qual", "") in ("Tag.append", "Tag.extend") and not any(e.key is h for h in heads):
                heads.append(e.key)
        for h in heads:
            for kind_, v, _ in container_adds(l.effects, h):
                if kind_ == "item" and isinstance(v, SNew) and v.args[:1] == ("script",) and len(v.args) > 1:
                    lt = listing_tokens(v.args[1], l)
                    shape = (lt[0], lt[1]) if lt is not None else ("?", short(v.args[1]))
                    if shape not in out:
                        out.append(shape)
    return out


LISTING = (";", (("FIELD", "name", "PLAIN"), ("LIT", "["), ("STR-OF", "version"), ("LIT", "]")))


def render_obligations(ctx: Ctx, I: Interp) -> None:
    prog = ctx.prog
    where = f"{CORE}:HTMLDocument.render"
    fn = prog.function(CORE, "HTMLDocument.render")
    a = fn.args
    names = [x.arg for x in a.args[1:] + a.kwonlyargs]
    ctx.require(set(names) == {"lib_prefix", "include_version"}, "HTMLDocument.render signature changed")
    cfg = Config()
    cfg.opaque_all = True

    def mk(run: Any):
        s = SObj("self", {"HTMLDOC"})
        lp, iv = SObj("lib_prefix", {"STR", "NONE"}), SBool(("param", "include_version"))
        run.__dict__["o"] = (s, lp, iv)
        return ({a.args[0].arg: s, "lib_prefix": lp, "include_version": iv}, s)

    n = 0
    for l in I.run_function(CORE, "HTMLDocument.render", mk, cfg):
        s, lp, iv = l.run.__dict__["o"]
        ctx.require(l.kind == "return", f"HTMLDocument.render raises {short(l.value)}")
        n += 1
        gen = [e for e in l.effects if e.kind == "call" and getattr(e.target, "qual", "") == "HTMLDocument._gen_html_tag_tree"]
        extra = [lbl for x, lbl in l.atoms]
        ok = len(gen) == 1 and gen[0].key is s
        if not ctx.check(ok, "C11.R1", "every render builds the document tree from the current content", where,
                         f"{len(gen)} calls of _gen_html_tag_tree (path: {extra})",
                         f"on some path (conditions {extra}) render() does not rebuild the tree from the current content: a document re-rendered after "
                         f"its content changed in place returns a stale result", witness="d = div(); doc = HTMLDocument(d); doc.render(); d.append(dep); doc.render()"):
            continue
        args = list(gen[0].value) + list(((gen[0].extra or {}).get("kwargs") or {}).values())
        ctx.check(any(x is lp for x in args) and any(x is iv for x in args), "C11.R1", "lib_prefix and include_version are forwarded to the tree builder", where,
                  f"_gen_html_tag_tree({[short(x) for x in args]})", "render() does not forward lib_prefix / include_version")
        tree = [o for o in _iter_objs(l) if _q(_call_of(o)) == "HTMLDocument._gen_html_tag_tree"]
        rend = [e for e in l.effects if e.kind == "call" and getattr(e.target, "qual", "").endswith(".render") and e is not gen[0]]
        ok2 = len(rend) == 1 and _q(_call_of(rend[0].key)) == "HTMLDocument._gen_html_tag_tree"
        ctx.check(ok2, "C11.R1", "the html tree is rendered once with Tag.render()", where, f"render calls on {[short(e.key) for e in rend]}", "the built tree is not what gets rendered")
        st = [e for e in l.effects if e.kind == "store_item" and e.key == "html"]
        ok3 = len(st) == 1 and isinstance(st[0].value, SStr) and len(st[0].value.frags) == 2 and st[0].value.frags[0].kind == "LIT" \
            and st[0].value.frags[0].a == "<!DOCTYPE html>\n"
        ctx.check(ok3, "C11.R1", "the markup is '<!DOCTYPE html>\\n' followed by the rendered <html> element", where,
                  f"html := {short(st[0].value) if st else None}", f"the document markup is {short(st[0].value) if st else None}, not the doctype line followed by the html element")
        v = l.value
        ok4 = rend and v is not None and _q(_call_of(v)) == rend[0].target.qual and (_call_of(v) or {}).get("recv") is rend[0].key
        ctx.check(bool(ok4), "C11.R1", "render returns the rendering result (markup and dependency list) of the html tree", where, f"returns {short(v)}", "render() returns something else than the tree's rendering result")
        if ok4:
            def _of_result(t: Any) -> bool:
                io = getattr(t, "meta", {}).get("item_of") if isinstance(t, SObj) else None
                return isinstance(io, tuple) and io[0] is v
            other = [e for e in l.effects if (e.kind in ("store_item", "del_item") and e.target is v and e.key != "html")
                     or (e.kind in ("mutcall", "store_item", "store_slice", "del_item") and _of_result(e.target))]
            ctx.check(not other, "C11.R1", "the dependency list of the rendering result is returned untouched", where,
                      f"{[(e.kind, short(e.key)) for e in other][:3]}",
                      f"render() rewrites the rendering result besides its markup ({[(e.kind, short(e.key)) for e in other][:2]}): the returned dependency list is no longer "
                      f"exactly the resolved list", witness="HTMLDocument(div(dep_a, dep_b)).render()['dependencies']")
    ctx.min_count("HTMLDocument.render paths", n, 1)


def forwarding_chain(ctx: Ctx, I: Interp, rule: str) -> None:
    """lib_prefix / include_version travel unchanged: render -> _gen_html_tag_tree -> _hoist_head_content -> as_html_tags -> as_dict
    -> source_path_map.  One dropped link makes the URLs in the page disagree with where save_html copies the files."""
    prog = ctx.prog

    def link(qual: str, callee: str, self_kind: str, what: str, recv_is_self: bool = False) -> None:
        fn = prog.function(CORE, qual)
        names = [a.arg for a in fn.args.args + fn.args.kwonlyargs]
        ctx.require({"lib_prefix", "include_version"} <= set(names), f"{qual}: parameters lib_prefix / include_version vanished")
        cfn = prog.function(CORE, callee)
        cnames = [a.arg for a in cfn.args.args + cfn.args.kwonlyargs]
        is_static = any(ast_unparse(d).split(".")[-1] == "staticmethod" for d in cfn.decorator_list)
        cfg = Config()
        cfg.opaque_all = True
        cfg.coarse_counts = True

        def mk(run: Any):
            b: Dict[str, Any] = {}
            s = None
            for i, nm in enumerate(names):
                if nm == "lib_prefix":
                    b[nm] = SObj("lib_prefix", {"STR", "NONE"})
                elif nm == "include_version":
                    b[nm] = SBool(("param", "include_version"))
                elif i == 0:
                    s = SObj(nm, {self_kind})
                    b[nm] = s
                else:
                    b[nm] = SObj(nm, ALL_KINDS)
            run.__dict__["o"] = (b["lib_prefix"], b["include_version"])
            return (b, s if names[0] == "self" else None)

        n = 0
        for l in I.run_function(CORE, qual, mk, cfg):
            if l.kind != "return":
                continue
            lp, iv = l.run.__dict__["o"]
            calls = [e for e in l.effects if e.kind == "call" and (getattr(e.target, "qual", "") == callee or (e.extra or {}).get("name") == callee.split(".")[-1])]
            if not calls:
                # the callee may be reached inside a comprehension: look at map templates
                for o in _iter_objs(l):
                    c = _call_of(o)
                    if c is not None and (getattr(c.get("func"), "qual", "") == callee or c.get("name") == callee.split(".")[-1]):
                        calls.append(type("C", (), {"value": c.get("args", []), "extra": {"kwargs": c.get("kwargs", {})}})())
            for e in calls:
                n += 1
                pos = list(e.value or [])
                params = cnames if is_static else cnames[1:]
                bound = dict(zip(params, pos))
                bound.update((e.extra or {}).get("kwargs") or {})
                ok = bound.get("lib_prefix") is lp and bound.get("include_version") is iv
                if what == "source_path_map" and "lib_prefix" in bound and bound.get("lib_prefix") is not lp:
                    ok = False
                labels = [str(lbl) for _, lbl in l.atoms][:3]
                ctx.check(ok, rule, f"{qual} hands its lib_prefix and include_version to {callee.split('.')[-1]}", f"{CORE}:{qual}",
                          f"{callee.split('.')[-1]}({ {k: short(v) for k, v in bound.items() if k in ('lib_prefix', 'include_version')} }) on path {labels}",
                          f"{qual} calls {callee.split('.')[-1]} without its own lib_prefix / include_version (got "
                          f"{ {k: short(v) for k, v in bound.items() if k in ('lib_prefix', 'include_version')} } on path {labels}): the URLs written into the page "
                          f"no longer match the directory the files are copied to",
                          witness="HTMLDocument(tags.html(dep)).save_html(f, include_version=False)")
        ctx.min_count(f"{qual} -> {callee.split('.')[-1]} call sites", n, 1)

    link("HTMLDocument.render", "HTMLDocument._gen_html_tag_tree", "HTMLDOC", "gen")
    link("HTMLDocument._gen_html_tag_tree", "HTMLDocument._hoist_head_content", "HTMLDOC", "hoist")
    link("HTMLDocument._hoist_head_content", "HTMLDependency.as_html_tags", "TAG", "tags")
    link("HTMLDependency.as_html_tags", "HTMLDependency.as_dict", "HTMLDEP", "dict")
    link("HTMLDependency.as_dict", "HTMLDependency.source_path_map", "HTMLDEP", "spm")


def _iter_objs(l: Any) -> List[Any]:
    out = []
    for e in l.effects:
        out += [e.target, e.key] + (list(e.value) if isinstance(e.value, list) else [e.value])
    return [o for o in out if isinstance(o, (SObj, SOpaque))]


def init_obligations(ctx: Ctx, I: Interp) -> None:
    """The document owns its content list: __init__ builds a new TagList from the arguments on every path, so that
    append() (which mutates that list in place) cannot reach a list the caller - or another document - still holds."""
    prog = ctx.prog
    where = f"{CORE}:HTMLDocument.__init__"
    fn = prog.function(CORE, "HTMLDocument.__init__")
    a = fn.args
    ctx.require(a.vararg is not None, "HTMLDocument.__init__ no longer takes *args")
    cfg = Config()
    cfg.opaque_all = True
    cfg.coarse_counts = True

    def mk(run: Any):
        s = SObj("self", {"HTMLDOC"}, origin="new")
        va = SObj(a.vararg.arg, {"TUPLE"})
        run.__dict__["o"] = (s, va)
        b: Dict[str, Any] = {a.args[0].arg: s, a.vararg.arg: va}
        if a.kwarg:
            b[a.kwarg.arg] = SObj(a.kwarg.arg, {"DICT"})
        return (b, s)

    n = 0
    for l in I.run_function(CORE, "HTMLDocument.__init__", mk, cfg):
        if l.kind != "return":
            continue
        s, va = l.run.__dict__["o"]
        st = [e for e in l.effects if e.kind == "store_attr" and e.target is s and e.key == "_content"]
        ctx.require(len(st) >= 1, "HTMLDocument.__init__ does not set _content on some path")
        v = st[-1].value
        n += 1
        fresh = isinstance(v, SNew) and v.cls_name == "TagList"
        labels = [str(lbl) for _, lbl in l.atoms][:3]
        ctx.check(fresh, "C11.R2", "the document's content is a TagList built by the constructor from the arguments", where,
                  f"_content := {short(v)} on path {labels}",
                  f"on the path {labels} HTMLDocument.__init__ stores {short(v)} as its content instead of building its own TagList: append() on this document "
                  f"then changes a list the caller (or another document) still uses",
                  witness="tl = TagList(div()); a = HTMLDocument(tl); b = HTMLDocument(tl); a.append(dep); b.render()")
    ctx.min_count("HTMLDocument.__init__ paths", n, 1)
    # content appended later: append() forwards everything to the content list
    from .c14 import _delegates
    _delegates(ctx, I, "append", cls="HTMLDocument", mod=CORE, kind="HTMLDOC", field="_content", rule="C11.R2")


def _exactly_one(atoms: Any, base: Any = None) -> bool:
    """The count decisions of a collection on this path cover every node kind and add up to exactly one element; with `base`,
    the collection has to be that one (the list the sole element was taken from)."""
    by: Dict[Any, List[Tuple[Any, str]]] = {}
    buid = getattr(base, "uid", None)
    for a, lab in atoms:
        if isinstance(a, tuple) and a[0] == "count":
            by.setdefault(a[1], []).append((frozenset(a[2]), str(lab)))
        if isinstance(a, tuple) and a[0] == "len-cmp" and a[2] == "==" and a[3] == 1 and lab is True and (buid is None or a[1] == buid):
            return True
    for uid, groups in by.items():
        if buid is not None and uid != buid:
            continue
        cov = frozenset().union(*[g for g, _ in groups])
        if not (frozenset(NODE_KINDS) - {"TAGLIST"} <= cov):   # a TagList never holds a TagList (flattened)
            continue
        labs = [lab for _, lab in groups]
        if all(x in ("n=0", "n=1") for x in labs) and labs.count("n=1") == 1:
            return True
    return False


def case_table(ctx: Ctx, I: Interp) -> None:
    prog = ctx.prog
    fn = prog.function(CORE, "HTMLDocument._gen_html_tag_tree")
    ps = [a.arg for a in fn.args.args]
    cfg = Config()
    cfg.opaque_all = True

    def mk(run: Any):
        s = SObj("self", {"HTMLDOC"})
        lp, iv = SObj("lib_prefix", {"STR", "NONE"}), SBool(("param", "include_version"))
        run.__dict__["o"] = (s, lp, iv)
        return ({ps[0]: s, "lib_prefix": lp, "include_version": iv}, s)

    seen = set()
    for l in I.run_function(CORE, "HTMLDocument._gen_html_tag_tree", mk, cfg):
        if l.kind != "return":
            continue
        s, lp, iv = l.run.__dict__["o"]
        attrs = s.attrs.get("_html_attr_args")
        labels = [str(lbl) for a, lbl in l.atoms]
        is_html = "== 'html'" in labels
        is_body = "== 'body'" in labels
        hoist = [e for e in l.effects if e.kind == "call" and getattr(e.target, "qual", "") == "HTMLDocument._hoist_head_content"]
        ctx.require(len(hoist) == 1, "_gen_html_tag_tree: not exactly one _hoist_head_content call")
        hfn = prog.function(CORE, "HTMLDocument._hoist_head_content")
        hnames = [a.arg for a in hfn.args.args + hfn.args.kwonlyargs]
        bound = dict(zip(hnames, list(hoist[0].value)))
        bound.update((hoist[0].extra or {}).get("kwargs") or {})
        ctx.require(not ((hoist[0].extra or {}).get("dstar")), "_hoist_head_content called with **kwargs")
        hargs = [bound.get(hnames[0]), bound.get("lib_prefix", "<default>"), bound.get("include_version", "<default>")] + \
            [v for k, v in bound.items() if k not in (hnames[0], "lib_prefix", "include_version")]
        tree = hargs[0] if hargs else None
        ctx.check(len(hargs) == 3 and hargs[1] is lp and hargs[2] is iv, "C11.R2", "lib_prefix and include_version reach _hoist_head_content on every branch", GEN,
                  f"case {'html' if is_html else 'body' if is_body else 'fragment'}: _hoist_head_content({[short(x) for x in hargs]})",
                  f"in the {'sole <html>' if is_html else 'sole <body>' if is_body else 'fragment'} case _hoist_head_content is called with "
                  f"{[short(x) for x in hargs[1:]]} instead of the caller's lib_prefix and include_version: dependency URLs ignore the requested setting",
                  witness="HTMLDocument(tags.html(dep)).render(include_version=False)")
        if is_html or is_body:
            # the list the sole element is taken from (content[0] of the expanded content)
            el_tree = tree if is_html else (tree.args[2] if isinstance(tree, SNew) and len(tree.args) == 3 else None)
            el = (_call_of(el_tree) or {}).get("recv") if el_tree is not None else None
            base = el.elem_of[0] if isinstance(el, SObj) and el.elem_of is not None else None
            ctx.check(_exactly_one(l.atoms, base), "C11.R2", f"the sole-<{'html' if is_html else 'body'}> case is taken only when the content is exactly that one element", GEN,
                      f"case {'html' if is_html else 'body'} under {[str(lbl) for _, lbl in l.atoms][:4]}",
                      f"the sole-<{'html' if is_html else 'body'}> case is chosen on a path that does not establish that the content has exactly one element "
                      f"(conditions {[str(lbl) for _, lbl in l.atoms][:4]}): siblings of that tag (dependencies, head_content(), text) are dropped from the document",
                      witness="doc = HTMLDocument(tags.body('x')); doc.append(head_content(tags.title('t'))); doc.render()")
        v = l.value
        ctx.check(_q(_call_of(v)) == "HTMLDocument._hoist_head_content", "C11.R2", "the result is the hoisted tree", GEN, f"returns {short(v)}", "the tree returned is not the one whose head was filled")
        if is_html:
            seen.add("html")
            upd = [e for e in l.effects if e.kind == "call" and getattr(e.target, "qual", "").endswith(".update")]
            ok = _from_tagify(tree) and len(upd) >= 1 and all(isinstance(e.key, SObj) and (e.key.meta.get("attr_of") or (None,))[0] is tree for e in upd) \
                and all(attrs in ((e.extra or {}).get("dstar") or []) for e in upd)
            ctx.check(ok, "C11.R2", "sole <html>: the user's tag, tagified, with the document's html attributes applied to the copy", GEN,
                      f"html case: tree {short(tree)}, updates {[short(e.key) for e in upd]}", "the sole-<html> case does not apply the html attributes to the tagified copy of the user's tag")
        else:
            ok = isinstance(tree, SNew) and tree.cls_name == "Tag" and tree.args and tree.args[0] == "html" and len(tree.args) == 3 \
                and isinstance(tree.args[1], SNew) and tree.args[1].args == ("head",) and tree.kwargs.get("_add_ws") is True and attrs in tree.dstar
            body = tree.args[2] if ok else None
            if is_body:
                seen.add("body")
                okb = ok and _from_tagify(body) and isinstance((_call_of(body) or {}).get("recv"), SObj) and (_call_of(body)["recv"]).elem_of is not None
                ctx.check(bool(okb), "C11.R2", "sole <body>: a new <html> with an empty <head> and the user's body (tagified)", GEN, f"body case: {short(tree)}",
                          "the sole-<body> case does not build Tag('html', Tag('head'), body.tagify(), **attrs)")
            else:
                seen.add("fragment")
                rb = (_call_of(body) or {}).get("recv") if ok else None
                okf = ok and _from_tagify(body) and isinstance(rb, SNew) and rb.cls_name == "Tag" and rb.args and rb.args[0] == "body" and len(rb.args) == 2
                ctx.check(bool(okf), "C11.R2", "otherwise: the content is wrapped in a new <body> inside a new <html> with an empty <head>", GEN,
                          f"fragment case: {short(tree)}", "the fragment case does not build Tag('html', Tag('head'), Tag('body', content).tagify(), **attrs)")
    ctx.require(seen == {"html", "body", "fragment"}, f"_gen_html_tag_tree: cases found {sorted(seen)}")


def hoist_obligations(ctx: Ctx, I: Interp) -> None:
    prog = ctx.prog
    fn = prog.function(CORE, "HTMLDocument._hoist_head_content")
    ps = [a.arg for a in fn.args.args + fn.args.kwonlyargs]
    ctx.require(len(ps) == 3 and set(ps[1:]) == {"lib_prefix", "include_version"}, "_hoist_head_content signature changed")

    def mk(run: Any):
        x = SObj(ps[0], {"TAG"})
        lp, iv = SObj("lib_prefix", {"STR", "NONE"}), SBool(("param", "include_version"))
        run.__dict__["o"] = (x, lp, iv)
        return ({ps[0]: x, "lib_prefix": lp, "include_version": iv}, None)

    # ---- the head search loop ----------------------------------------------------------------------------------
    # (the loop is located by what it iterates - the children of the <html> copy - wherever a refactoring has put it)
    hkey: Any = ("HTMLDocument._hoist_head_content", 0)
    cfg0 = Config()
    cfg0.opaque_all = True
    cfg0.coarse_counts = True
    cfg0.loop_effects = False
    found_key = None
    for l0 in I.run_function(CORE, "HTMLDocument._hoist_head_content", mk, cfg0):
        for rec0 in l0.run.loops:
            b0 = rec0.iter_value
            d0 = getattr(b0, "iter_descr", None)
            while d0 is not None and d0[0] in ("enumerate",):
                b0 = d0[1]
                d0 = getattr(b0, "iter_descr", None)
            s0 = b0.meta.get("copy_of") if isinstance(b0, SObj) and b0.meta.get("copy_of") is not None else b0
            if found_key is None and isinstance(s0, SObj) and (s0.meta.get("attr_of") or (None, None))[1] == "children":
                found_key = rec0.__dict__.get("loop_key")
    if found_key is not None:
        hkey = found_key
    cfg = Config()
    cfg.opaque_all = True
    cfg.stop_at_loop = hkey
    nb = 0
    for l in I.run_function(CORE, "HTMLDocument._hoist_head_content", mk, cfg):
        rec = getattr(l.run, "stop_loop_record", None)
        if rec is None:
            continue
        x, lp, iv = l.run.__dict__["o"]
        labels = [str(lbl) for a, lbl in l.atoms if isinstance(a, tuple) and a[0] in ("isinstance", "eq") and "html" not in str(lbl)]
        is_head = "isinstance Tag" in labels and "== 'head'" in labels
        it = rec.iter_value
        base = it
        d = getattr(base, "iter_descr", None)
        while d is not None and d[0] in ("enumerate",):
            base = d[1]
            d = getattr(base, "iter_descr", None)
        src = base.meta.get("copy_of") if isinstance(base, SObj) and base.meta.get("copy_of") is not None else base
        okb = isinstance(src, SObj) and (src.meta.get("attr_of") or (None, None))[1] == "children"
        ctx.check(okb, "C11.R3", "the head search walks the direct children of <html> in order", HOIST, f"for ... in {short(it)}", "the <head> search does not walk the direct children in order")
        if is_head:
            nb += 1
            # (`return i` from a search helper ends the search just like `break` in the function itself)
            in_helper = not str(getattr(rec, "fn_qual", "")).endswith("_hoist_head_content")
            ctx.check(l.kind == "break" or (in_helper and l.kind == "return"), "C11.R3", "the first direct child tag named head ends the search", HOIST,
                      f"head child: {l.kind}", "finding a <head> child does not stop the search")
        else:
            ctx.check(l.kind in ("fall", "continue"), "C11.R3", "a child that is not a <head> tag does not end the search", HOIST,
                      f"non-head child ({labels}): {l.kind}",
                      f"the search for the user's <head> stops at a child that is not a head tag ({labels}): a <head> placed after another element is not found "
                      f"and a second <head> is inserted", witness="HTMLDocument(tags.html(tags.body(), tags.head(tags.title('t')))).render()")
    if nb == 0:
        nb = _head_search_by_next(ctx, I, mk)
    ctx.min_count("head search: head-found paths", nb, 1)
    # ---- the rest of the function ---------------------------------------------------------------------------------------
    cfg2 = Config()
    cfg2.opaque_all = True
    cfg2.coarse_counts = True
    cfg2.loop_effects = False
    n = 0
    for l in I.run_function(CORE, "HTMLDocument._hoist_head_content", mk, cfg2):
        if l.kind != "return":
            continue
        x, lp, iv = l.run.__dict__["o"]
        n += 1
        found = l.run.path.memo.get(("loop", hkey))
        for a_, c_ in l.run.path.memo.items():
            if isinstance(a_, tuple) and a_ and a_[0] == "next-found":
                found = 1 if c_ == 0 else 0      # same coding as the loop choice: 0 = nothing found
        calls = [e for e in l.effects if e.kind == "call"]
        ins = [e for e in calls if getattr(e.target, "qual", "") == "Tag.insert"]
        newhead = [e for e in ins if e.value and len(e.value) == 2 and isinstance(e.value[1], SNew) and e.value[1].args == ("head",)]
        if found == 0:   # loop exhausted: no head
            ctx.check(len(newhead) == 1 and newhead[0].value[0] == 0, "C11.R3", "without a user <head>, a new one is inserted as first child", HOIST,
                      f"no head: inserts {[short(e.value) for e in newhead]}", "when the user's <html> has no <head>, none is inserted at position 0")
        else:
            ctx.check(not newhead, "C11.R3", "with a user <head>, no second <head> is created", HOIST, f"head found: inserts {[short(e.value) for e in newhead]}", "a second <head> is inserted although the user supplied one")
        meta = [e for e in ins if e.value and len(e.value) == 2 and isinstance(e.value[1], SNew) and e.value[1].args == ("meta",)]
        okm = len(meta) == 1 and meta[0].value[0] == 0 and meta[0].value[1].kwargs == {"charset": "utf-8"}
        head = meta[0].key if meta else None
        ctx.check(okm, "C11.R3", "<meta charset=\"utf-8\"> is inserted at the start of the head", HOIST, f"meta insert {[short(e.value) for e in meta]}",
                  "the head does not start with Tag('meta', charset='utf-8') inserted at index 0", witness="HTMLDocument(tags.html(tags.head(tags.title('t')))).render()")
        okc = (isinstance(head, SObj) and head.origin == "new") or isinstance(head, SNew)
        ctx.check(okc, "C11.R3", "the head that is filled is a copy (the user's head object is not modified)", HOIST, f"head object {short(head)}", "the user's own <head> tag is modified in place")
        gd = [e for e in calls if getattr(e.target, "qual", "").endswith(".get_dependencies")]
        ctx.require(len(gd) == 1, "_hoist_head_content: dependencies collected more or less than once")
        # what is added to the head, in order: append(x) == extend([x]); extend([]) adds nothing
        class _Add:
            def __init__(self, kind: str, value: Any, pos: int):
                self.kind, self.value, self.pos = kind, [value], pos
        adds: List[Any] = [_Add(k_, v_, p_) for k_, v_, p_ in container_adds(l.effects, head)]
        cands: List[Any] = []
        for a_ in adds:
            if a_.kind == "map":
                cands.append(a_.value[0].base)
            if a_.kind == "item" and isinstance(a_.value[0], SNew) and len(a_.value[0].args) > 1:
                lt0 = listing_tokens(a_.value[0].args[1], l)
                if lt0 is not None:
                    cands.append(lt0[2])
        deps = [o for o in cands if _q(_call_of(o)).endswith(".get_dependencies") and (_call_of(o) or {}).get("recv") is gd[0].key]
        if cands and len({id(o) for o in cands}) > 1:
            ctx.fail("C11.R6", HOIST, "listing and hoisted markup iterate different lists",
                     "the dependency listing and the hoisted markup are produced from two different lists")
        ctx.check(gd[0].key is x, "C11.R3", "the dependencies are those of the tree passed in", HOIST, f"get_dependencies on {short(gd[0].key)}", "dependencies are collected from another tree")
        kw = (gd[0].extra or {}).get("kwargs") or {}
        ctx.check(not kw and not gd[0].value, "C11.R3", "dependencies are collected resolved (dedup left at its default)", HOIST, f"get_dependencies({gd[0].value}, {kw})", "hoisting uses an unresolved dependency list")
        nonempty = None
        for a, v in l.atoms:
            if isinstance(a, tuple) and a[0] == "len-cmp" and deps and a[1] == getattr(deps[0], "uid", None):
                nonempty = (a[2], a[3], v)
        listing = [a_ for a_ in adds if a_.kind == "item" and isinstance(a_.value[0], SNew) and a_.value[0].args[:1] == ("script",)]
        ext = [a_ for a_ in adds if a_.kind in ("map", "other")]
        stray = [a_ for a_ in adds if a_ not in listing and a_ not in ext]
        ctx.check(not stray, "C11.R3", "nothing else is added to the head", HOIST, f"also adds {[short(a_.value[0]) for a_ in stray][:3]}", "something besides the listing and the dependency markup is added to the head")
        if listing:
            t = listing[0].value[0]
            lt = listing_tokens(t.args[1], l) if len(t.args) > 1 else None
            ok = lt is not None and (lt[0], lt[1]) == LISTING and deps and lt[2] is deps[0] and t.kwargs.get("type") == "application/html-dependencies"
            ctx.check(bool(ok), "C11.R4", "the listing script is ';'.join(name[version]) over the resolved list, typed application/html-dependencies", HOIST,
                      f"listing {short(t)}", f"the dependency listing is {short(t)}: not name[version] of every resolved dependency, ';'-separated, in one application/html-dependencies script",
                      witness="HTMLDocument(div(a, b)).render()['html']")
        ctx.check(bool(listing) == (nonempty is not None and _holds(nonempty)), "C11.R3", "the listing is appended iff there is at least one dependency", HOIST,
                  f"listing={bool(listing)} under {nonempty}", "the dependency listing is emitted for an empty list or omitted for a non-empty one")
        okx = len(ext) == 1 and ext[0].value and isinstance(ext[0].value[0], SList) and ext[0].value[0].mode == "map" and deps and ext[0].value[0].base is deps[0] \
            and not ext[0].value[0].cond
        if not ext and not listing and _known_empty(l, gd[0]):
            ctx.ok("C11.R3", "with no dependencies nothing is added after the charset meta")
            continue
        if ctx.check(bool(okx), "C11.R3", "head.extend([d.as_html_tags(...) for d in deps]) over the same resolved list, in order", HOIST,
                     f"extend {[short(e.value[0]) for e in ext]}", "the hoisted dependency markup is not produced from every resolved dependency in order"):
            m = ext[0].value[0]
            c = _call_of(m.elt)
            if c is None and isinstance(m.elt, SOpaque):
                c = m.elt.__dict__.get("method_call") and {"func": None, "recv": m.elt.__dict__["method_call"]["recv"], "args": m.elt.__dict__["method_call"]["args"],
                                                       "kwargs": m.elt.__dict__["method_call"]["kwargs"], "name": m.elt.__dict__["method_call"]["name"]}
            okc2 = c is not None and c.get("recv") is m.var and (getattr(c.get("func"), "qual", "") == "HTMLDependency.as_html_tags" or c.get("name") == "as_html_tags")
            kwc = (c or {}).get("kwargs") or {}
            ctx.check(bool(okc2) and kwc.get("lib_prefix") is lp and kwc.get("include_version") is iv, "C11.R3",
                      "each dependency is rendered with as_html_tags(lib_prefix=lib_prefix, include_version=include_version)", HOIST,
                      f"as_html_tags kwargs { {k: short(v) for k, v in kwc.items()} }", "lib_prefix / include_version are not forwarded to as_html_tags: URLs do not match the copied files",
                      witness="HTMLDocument(dep).render(lib_prefix='x', include_version=False)")
        mpos = l.effects.index(meta[0]) if meta else -1
        seq = [("listing" if a_ in listing else "markup") for a_ in adds]
        ok_order = all(a_.pos > mpos for a_ in adds) and seq == ["listing"] * len(listing[:1]) + ["markup"] * len(ext[:1])
        ctx.check(ok_order, "C11.R3", "order: meta charset, then the listing, then the dependency markup", HOIST,
                  f"order meta@{mpos} then {seq}", "the head is filled in a different order")
    ctx.min_count("_hoist_head_content returning paths", n, 2)


def _known_empty(l: Any, gd: Any) -> bool:
    """The path has decided that the collected dependency list is empty (len(deps) == 0 / not deps)."""
    pool = list(_iter_objs(l)) + [v for v in (getattr(l, "env", None) or {}).values()]
    res = [o for o in pool if isinstance(o, SObj) and (_call_of(o) or {}).get("recv") is gd.key and _q(_call_of(o)).endswith(".get_dependencies")]
    uids = {o.uid for o in res}
    for a, v in l.atoms:
        if not isinstance(a, tuple):
            continue
        if a[0] == "len-cmp" and a[1] in uids and not _holds((a[2], a[3], v)) and (a[2], a[3]) in ((">", 0), ("!=", 0), (">=", 1)):
            return True
        if a[0] == "len-cmp" and a[1] in uids and (a[2], a[3]) == ("==", 0) and v is True:
            return True
        if a[0] == "nonempty" and a[1] in uids and v is False:
            return True
    cnt = [str(v) for a, v in l.atoms if isinstance(a, tuple) and a[0] == "count" and a[1] in uids]
    return bool(cnt) and all(c == "n=0" for c in cnt)


def _head_search_by_next(ctx: Ctx, I: Interp, mk: Any) -> int:
    """The head search written as next((i for i, child in enumerate(children) if <child is a head tag>), None)."""
    cfg = Config()
    cfg.opaque_all = True
    cfg.coarse_counts = True
    cfg.loop_effects = False
    n = 0
    for l in I.run_function(CORE, "HTMLDocument._hoist_head_content", mk, cfg):
        srch = [e for e in l.effects if e.kind == "search"]
        if not srch:
            continue
        g = srch[0].target
        var = srch[0].value
        child = var.items[1] if isinstance(var, SList) and len(var.items) == 2 else var
        idx = var.items[0] if isinstance(var, SList) and len(var.items) == 2 else None
        base = g.base
        d = getattr(base, "iter_descr", None)
        while d is not None and d[0] == "enumerate":
            base = d[1]
            d = getattr(base, "iter_descr", None)
        src = base.meta.get("copy_of") if isinstance(base, SObj) and base.meta.get("copy_of") is not None else base
        okb = isinstance(src, SObj) and (src.meta.get("attr_of") or (None, None))[1] == "children"
        ctx.check(okb, "C11.R3", "the head search walks the direct children of <html> in order", HOIST, f"next(... in {short(g.base)})", "the <head> search does not walk the direct children in order")
        nm_obj = child.attrs.get("name") if isinstance(child, SObj) else None
        uids = {getattr(child, "uid", None), getattr(nm_obj, "uid", None)}
        labels = [str(lbl) for a, lbl in l.atoms if isinstance(a, tuple) and a[0] in ("isinstance", "eq") and a[1] in uids]
        conds = sorted(labels)
        n += 1
        ctx.check(conds == sorted(["isinstance Tag", "== 'head'"]) and g.elt is idx, "C11.R3", "the first direct child that is a tag named head is taken", HOIST,
                  f"next() condition {conds}", f"the element picked as the user's <head> satisfies {conds}, not exactly `isinstance(child, Tag) and child.name == 'head'`",
                  witness="HTMLDocument(tags.html(tags.body(), tags.head(tags.title('t')))).render()")
    return n


def _holds(t: Tuple[Any, ...]) -> bool:
    op, c, val = t
    # the truth value `val` of `len(deps) <op> c` means "non-empty"?
    nonempty_when_true = (op == ">" and c == 0) or (op == ">=" and c == 1) or (op == "!=" and c == 0)
    empty_when_true = (op == "==" and c == 0) or (op == "<" and c == 1) or (op == "<=" and c == 0)
    if nonempty_when_true:
        return bool(val)
    if empty_when_true:
        return not bool(val)
    return False


def head_field(ctx: Ctx, I: Interp) -> None:
    """What HTMLDependency stores as its head payload: None stays None, a bare string is markup (TagList(HTML(s))), anything
    else is TagList(head) - its items are ordinary children, so plain strings in it are escaped when hoisted."""
    prog = ctx.prog
    where = f"{CORE}:HTMLDependency.__init__"
    fn = prog.function(CORE, "HTMLDependency.__init__")
    names = [a.arg for a in fn.args.args + fn.args.kwonlyargs]
    ctx.require("head" in names, "HTMLDependency.__init__ has no head parameter")
    cfg = Config()
    cfg.opaque_all = True
    cfg.coarse_counts = True
    cfg.loop_effects = False

    def mk(run: Any):
        s = SObj("self", {"HTMLDEP"}, origin="new")
        b: Dict[str, Any] = {names[0]: s}
        for nm in names[1:]:
            if nm == "head":
                h = SObj("head", {"NONE", "STR", "TAG", "TAGLIST", "LIST", "HTMLSTR"})
                b[nm] = h
                run.__dict__["h"] = h
            elif nm in ("name",):
                b[nm] = SObj(nm, {"STR"})
            elif nm == "version":
                b[nm] = SObj(nm, {"STR"})
            elif nm == "all_files":
                b[nm] = SBool(("param", nm))
            else:
                b[nm] = None
        run.__dict__["s"] = s
        return (b, s)

    seen = set()
    for l in I.run_function(CORE, "HTMLDependency.__init__", mk, cfg):
        if l.kind != "return":
            continue
        s, h = l.run.__dict__["s"], l.run.__dict__["h"]
        st = [e for e in l.effects if e.kind == "store_attr" and e.target is s and e.key == "head"]
        ctx.require(bool(st), "HTMLDependency.__init__ does not store self.head on some path")
        v = st[-1].value
        for k in sorted(h.kinds):
            seen.add(k)
            if k == "NONE":
                ok = v is None
                want = "None"
            elif k == "STR":
                a0 = v.args[0] if isinstance(v, SNew) and v.cls_name == "TagList" and len(v.args) == 1 and not v.star else None
                ok = isinstance(a0, SNew) and a0.cls_name == "HTML" and len(a0.args) == 1 and a0.args[0] is h
                want = "TagList(HTML(head))"
            else:
                ok = isinstance(v, SNew) and v.cls_name == "TagList" and len(v.args) == 1 and v.args[0] is h and not v.star and not v.kwargs
                want = "TagList(head)"
            ctx.check(bool(ok), "C11.R5", f"a head payload of kind {k} is stored as {want}", where, f"head {k} -> {short(v)}",
                      f"a `head=` payload of kind {k} is stored as {short(v)}, not {want}: "
                      + ("plain strings inside a list / TagList payload are marked as markup and reach <head> unescaped" if k not in ("NONE", "STR") else "the payload is changed"),
                      witness="HTMLDocument(div(head_content('a<b', tags.title('t')))).render()")
    ctx.require({"NONE", "STR", "TAG"} <= seen, "HTMLDependency.__init__: head cases incomplete")


def as_html_tags_obligations(ctx: Ctx, I: Interp) -> None:
    prog = ctx.prog
    where = f"{CORE}:HTMLDependency.as_html_tags"
    fn = prog.function(CORE, "HTMLDependency.as_html_tags")
    cfg = Config()
    cfg.opaque_all = True
    cfg.loop_effects = True

    def mk(run: Any):
        s = SObj("self", {"HTMLDEP"})
        lp, iv = SObj("lib_prefix", {"STR", "NONE"}), SBool(("param", "include_version"))
        run.__dict__["o"] = (s, lp, iv)
        return ({fn.args.args[0].arg: s, "lib_prefix": lp, "include_version": iv}, s)

    for l in I.run_function(CORE, "HTMLDependency.as_html_tags", mk, cfg):
        s, lp, iv = l.run.__dict__["o"]
        ctx.require(l.kind == "return", "as_html_tags raises")
        v = l.value
        ad = [e for e in l.effects if e.kind == "call" and getattr(e.target, "qual", "") == "HTMLDependency.as_dict"]
        kw = (ad[0].extra or {}).get("kwargs", {}) if ad else {}
        ctx.check(len(ad) == 1 and kw.get("lib_prefix") is lp and kw.get("include_version") is iv, "C11.R5", "as_html_tags builds from as_dict(lib_prefix, include_version)", where,
                  f"as_dict kwargs { {k: short(x) for k, x in kw.items()} }", "as_html_tags does not forward lib_prefix/include_version to as_dict")
        ok = isinstance(v, SNew) and v.cls_name == "TagList"
        parts = []
        allargs = v.__dict__.get("all_args", []) if ok else []
        if ok and len(allargs) == 1 and isinstance(allargs[0], SSplat) and isinstance(allargs[0].value, SList) and allargs[0].value.mode == "carried":
            # tags accumulated in a list by explicit loops, then TagList(*tags)
            from ..loopbuilt import contributions, initial_items, iter_base
            lst = allargs[0].value
            for c in contributions(l, lst):
                val = c["value"]
                if c["loop"] is not None and isinstance(val, SNew) and val.cls_name == "Tag" and c["how"] == "append":
                    src = iter_base(c["iter"])
                    key = (src.meta.get("item_of") or (None, None))[1] if isinstance(src, SObj) else None
                    parts.append((val.args[0] if val.args else None, key, bool(val.dstar) and val.dstar[0] is c["element"]))
                elif c["loop"] is None and c["how"] == "append" and isinstance(val, SObj) and (val.meta.get("attr_of") or (None, None))[1] == "head":
                    parts.append(("head", None, True))
                else:
                    parts.append(("?", short(val), False))
            allargs = []
        if ok:
            for x in allargs:
                y = x.value if isinstance(x, SSplat) else x
                if isinstance(y, SList) and y.mode == "map" and isinstance(y.elt, SNew) and y.elt.cls_name == "Tag":
                    src = y.base
                    key = (src.meta.get("item_of") or (None, None))[1] if isinstance(src, SObj) else None
                    parts.append((y.elt.args[0] if y.elt.args else None, key, bool(y.elt.dstar) and y.elt.dstar[0] is y.var))
                elif isinstance(y, SObj) and (y.meta.get("attr_of") or (None, None))[1] == "head":
                    parts.append(("head", None, True))
                else:
                    parts.append(("?", short(y), False))
        want = [("meta", "meta", True), ("link", "stylesheet", True), ("script", "script", True), ("head", None, True)]
        ctx.check(ok and parts == want, "C11.R5", "as_html_tags = TagList(*metas, *links, *scripts, self.head), each tag built from its dict", where,
                  f"parts {parts}", f"as_html_tags assembles {parts}; expected meta tags, then link tags, then script tags, then the head payload",
                  witness="HTMLDependency('a','1', script={'src':'a.js'}, stylesheet={'href':'a.css'}, meta={'name':'x','content':'y'}).as_html_tags()")


def agreement(ctx: Ctx, I: Interp) -> None:
    """R6: the listing, the hoisted markup and the returned list derive from one resolved list."""
    prog = ctx.prog
    # (a) the returned list is a second collection made after hoisting (HTMLDocument.render returns Tag.render() of the hoisted tree)
    # (b) what is hoisted (as_html_tags -> self.head) may itself carry metadata nodes
    ci = prog.get_class("HTMLDependency")
    init = ci.methods.get("__init__")
    ctx.require(init is not None, "HTMLDependency.__init__ vanished")
    head_any = False
    for n in ast.walk(init):
        if isinstance(n, ast.Assign) and any(isinstance(t, ast.Attribute) and t.attr == "head" for t in n.targets):
            if isinstance(n.value, ast.Call) and isinstance(n.value.func, ast.Name) and n.value.func.id == "TagList" \
                    and any(isinstance(a, ast.Name) and a.id == "head" for a in n.value.args):
                head_any = True     # TagList(head) with head: TagChild - any node, including dependencies
    fn = prog.function(CORE, "HTMLDocument.render")
    recollect = any(isinstance(n, ast.Call) and isinstance(n.func, ast.Attribute) and n.func.attr == "render" for n in ast.walk(fn))
    hoist = prog.function(CORE, "HTMLDocument._hoist_head_content")
    pre = any(isinstance(n, ast.Call) and isinstance(n.func, ast.Attribute) and n.func.attr == "get_dependencies" for n in ast.walk(hoist))
    if head_any and recollect and pre:
        ctx.fail("C11.R6", f"{CORE}:HTMLDependency.as_html_tags", "self.head may carry MetadataNode",
                 "the listing and the hoisted markup use the dependencies collected before hoisting, while HTMLDocument.render returns a second collection made "
                 "after hoisting; a dependency nested in a head_content()/head= payload is therefore returned but neither listed nor hoisted",
                 witness="HTMLDocument(div(head_content(tags.script('x'), dep))).render()")
    else:
        ctx.ok("C11.R6", "listing, hoisted markup and returned list cannot disagree (no dependency can hide in hoisted payloads, or one list is used)")


def check(ctx: Ctx) -> None:
    ctx.explanation = (
        "Engine A effect traces with callees opaque: R1 HTMLDocument.render rebuilds the tree on every path, forwards lib_prefix/"
        "include_version, renders it once, prefixes '<!DOCTYPE html>\\n' and returns that rendering result; R2 the three cases of "
        "_gen_html_tag_tree (sole <html>: tagified copy with html attributes applied; sole <body>: new html/head around the tagified "
        "body; otherwise content wrapped in a new body) each pass both settings to _hoist_head_content; R3 the head search walks the "
        "direct children and only a head tag ends it, a new head is inserted at 0 iff none was found, the head that is filled is a copy, "
        "meta charset is inserted at 0, the listing is appended iff the resolved list is non-empty, and head.extend runs "
        "as_html_tags(lib_prefix=, include_version=) over the same list in order; R4 listing text and script type; R5 as_html_tags "
        "orders meta, link, script, head; R6 agreement of listed/hoisted/returned lists (a recorded known finding on this tree). "
        "The complete document string is not decided.")
    ctx.trust("Engine A abstract semantics", "list.insert/append/extend semantics")
    I = Interp(ctx.prog)
    init_obligations(ctx, I)
    render_obligations(ctx, I)
    # "for any html attributes": the keyword arguments of HTMLDocument go through the attribute value rules of the <html> tag
    from .c03 import value_table_obligations
    value_table_obligations(ctx, "C11")
    case_table(ctx, I)
    hoist_obligations(ctx, I)
    # "every resolved dependency": the collection the hoisting starts from (rules C10.collect / C10.dedup, shared with C10)
    from .c10 import collection_table, render_reports_resolved
    collection_table(ctx, I)
    render_reports_resolved(ctx, I, rule="C11.R1")
    head_field(ctx, I)
    as_html_tags_obligations(ctx, I)
    agreement(ctx, I)
