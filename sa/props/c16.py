"""C16 - class/style helpers and css() act as token-set and declaration algebra (DESIGN 4, C16)."""

from __future__ import annotations

import re
from typing import Any, Dict, List, Tuple

from .. import attrmodel
from ..eval_expr import _K
from ..interp import Config, Interp
from ..report import Ctx
from ..strmodel import eval_sstr
from ..values import (ALL_KINDS, Frag, SBool, SDict, SList, SNew, SObj, SOpaque, SSplat, SStr, Sym, Unmodelled, short)

CORE = "htmltools._core"
CSS = "htmltools._util:css"
CSS_PROBES = ["font_size", "backgroundColor", "fontSize", "color", "a_b_c", "WebkitTransition", "borderTopLeftRadius", "x", "margin_top", "zIndex",
              "border_topWidth", "MozBox_sizing"]


def spec_css_key(k: str) -> str:
    return re.sub("_", "-", re.sub("([A-Z])", "-\\1", k).lower())


def _split_of(v: Any) -> Any:
    """If v is the list produced by <class attr>.split() with whitespace semantics, return the strop record."""
    if isinstance(v, SObj) and v.meta.get("strop") is not None and v.meta["strop"]["op"] == "split" \
            and list(v.meta["strop"]["args"]) in ([], [None], [None, -1]):
        return v.meta["strop"]
    return None


def returns_self(ctx: Ctx, meth: str, runs: List[Dict[str, Any]]) -> None:
    where = f"{CORE}:Tag.{meth}"
    for r in runs:
        l = r["leaf"]
        if l.kind == "return":
            ctx.check(l.value is r["self"], "C16.self", f"Tag.{meth} returns the tag itself on every path", where, f"returns {short(l.value)}",
                      f"Tag.{meth} returns {short(l.value)} instead of the tag on some path: call chaining breaks")


def check(ctx: Ctx) -> None:
    ctx.explanation = (
        "Engine A over the Tag helpers with TagAttrDict methods opaque: add_class/remove_class/add_style return the tag on "
        "every path; add_style raises ValueError for every str/HTML value whose text does not end in ';' before anything is "
        "written (the semicolon test is on the path of every accepted value); add_class/add_style pass the two one-item dicts "
        "to attrs.update in (new, old) order iff prepend; has_class tests membership in <class value>.split() (token, not "
        "substring); remove_class keeps exactly the tokens of .split() that differ from the stripped argument, by a filter "
        "(not list.remove / a set), joined by one space, and pops the attribute when none remain. css(): the loop body appends "
        "exactly one 'name:value;'+separator per non-None argument to the result string, None iff nothing was appended, and the "
        "derived key pipeline is compared with the camelCase/underscore rule on sample property names. Token-set algebra over "
        "histories is a runtime matter and is not decided.")
    ctx.trust("str.split() splits on whitespace runs", "Engine A abstract semantics", "re module evaluated on sample property names")
    prog = ctx.prog
    # the helpers write through TagAttrDict (update / item assignment): a plain token string written there is the string read back
    from .c03 import setitem_obligations
    setitem_obligations(ctx, "C16", exact=True)
    # ---------------- add_class ---------------------------------------------------------------------------------------------------
    pre = SBool(("param", "prepend"))
    for meth, argn in (("add_class", "class_"), ("add_style", "style")):
        where = f"{CORE}:Tag.{meth}"
        runs = attrmodel.helper_writes(prog, meth, {argn: {"STR", "HTMLSTR"}, "prepend": SBool(("param", "prepend"))})
        returns_self(ctx, meth, runs)
        attr = "class" if meth == "add_class" else "style"
        n = 0
        for r in runs:
            l = r["leaf"]
            arg = r["args"][argn]
            if meth == "add_style":
                tested = None
                for atom, val in l.atoms:
                    ai = l.run.atom_info.get(atom)
                    if ai is not None and ai["op"] == "endswith" and ai["arg"] == ";" and (ai.get("obj") is arg or _of(ai["recv"], arg)):
                        tested = bool(val)
                kinds = "|".join(sorted(arg.kinds))
                if l.kind == "raise":
                    okr = isinstance(l.value, SNew) and l.value.cls_name == "ValueError" and tested is False and not r["writes"]
                    ctx.check(okr, "C16.style", f"add_style({kinds} without ';') raises ValueError before any write", where,
                              f"raise {getattr(l.value, 'cls_name', '?')} tested={tested} writes={len(r['writes'])}",
                              "add_style raises for a valid value or after modifying the tag")
                    continue
                ctx.check(tested is True, "C16.style", f"an accepted {kinds} style value has passed the trailing-semicolon test", where,
                          f"style kind {kinds} accepted with semicolon test = {tested}",
                          f"a style value of kind {kinds} is added without checking that it ends in a semicolon: the next declaration "
                          f"appended to it is swallowed, and the tag is modified where it should raise ValueError",
                          witness="div(style='margin:0;').add_style(HTML('color: red'))")
            if l.kind != "return":
                continue
            ws = r["writes"]
            okw = len(ws) == 1 and ws[0]["via"] == "TagAttrDict.update" and len(ws[0]["args"]) == 2 and all(isinstance(a, SDict) and list(a.items) == [attr] for a in ws[0]["args"])
            if not ctx.check(okw, "C16.update", f"Tag.{meth} writes through one attrs.update of two one-item dicts", where,
                             f"writes {[(w['via'], [short(a) for a in (w['args'] if isinstance(w['args'], list) else [w['args']])]) for w in ws]}",
                             f"Tag.{meth} does not funnel through a single attrs.update({{'{attr}': ..}}, {{'{attr}': ..}})"):
                continue
            n += 1
            first, second = ws[0]["args"][0].items[attr], ws[0]["args"][1].items[attr]
            prepend = l.run.path.memo.get(("param", "prepend"))
            ctx.require(prepend is not None, f"Tag.{meth}: order does not depend on `prepend`")
            is_old = lambda v: isinstance(v, SObj) and v.meta.get("item_of") is not None and v.meta["item_of"][0] is r["attrs"] and v.meta["item_of"][1] == attr
            if prepend == 0:
                good = first is arg and is_old(second)
            else:
                good = is_old(first) and second is arg
            ctx.check(good, "C16.order", f"Tag.{meth}(prepend={prepend == 0}) merges (new, old) iff prepend", where,
                      f"prepend={prepend == 0}: update({short(first)}, {short(second)})",
                      f"with prepend={prepend == 0} the values are merged as ({short(first)}, {short(second)})",
                      witness=f"div({attr}_='a').{meth}('b', prepend=True)" if meth == "add_class" else None)
        ctx.min_count(f"Tag.{meth} write paths", n, 2)
    # ---------------- has_class ----------------------------------------------------------------------------------------------------
    where = f"{CORE}:Tag.has_class"
    runs = attrmodel.helper_writes(prog, "has_class", {"class_": {"STR"}})
    nm = 0
    for r in runs:
        l = r["leaf"]
        ctx.check(not r["writes"], "C16.has", "has_class does not modify the tag", where, f"writes {len(r['writes'])}", "has_class modifies the tag")
        ctx.require(l.kind == "return", "has_class raises")
        mem = [(a, v) for a, v in l.atoms if isinstance(a, tuple) and a[0] in ("in", "substr")]
        if not mem:
            ctx.check(l.value is False, "C16.has", "has_class is False when there is no class value", where, f"returns {short(l.value)} without a membership test",
                      f"has_class returns {short(l.value)} without testing membership")
            continue
        nm += 1
        a, v = mem[0]
        if a[0] == "substr":
            ctx.fail("C16.has", where, "class_ in <str>", "has_class tests substring containment in the class string, not token membership",
                     witness="div(class_='foobar').has_class('foo') must be False")
            continue
        cont = None
        for o in l.run.elem_memo.values():
            pass
        # the container of the membership test: ("coll", uid)
        ai = l.run.atom_info.get(a)
        objs = [ai["container"]] if ai is not None else []
        so = _split_of(objs[0]) if objs else None
        item = a[1].v if isinstance(a[1], _K) else a[1]
        ctx.check(so is not None and item is r["args"]["class_"] and l.value is bool(v), "C16.has",
                  "has_class(t) is `t in <class value>.split()`", where,
                  f"{'class_' if item is r['args']['class_'] else 'another value'} in {short(objs[0]) if objs else 'an unidentified container'} -> {short(l.value)}",
                  f"has_class tests {'class_' if item is r['args']['class_'] else 'another value'} against {short(objs[0]) if objs else 'an unidentified container'}: "
                  f"not whitespace-token membership of the argument",
                  witness="div(class_='foo-x foobar').has_class('foo') must be False")
    ctx.min_count("has_class membership paths", nm, 2)
    # ---------------- remove_class -------------------------------------------------------------------------------------------------------
    where = f"{CORE}:Tag.remove_class"
    runs = attrmodel.helper_writes(prog, "remove_class", {"class_": {"STR"}})
    returns_self(ctx, "remove_class", runs)
    nu = npop = 0
    for r in runs:
        l = r["leaf"]
        if l.kind != "return":
            continue
        arg = r["args"]["class_"]
        muts = [e for e in l.effects if e.kind == "mutcall" and isinstance(e.target, (SObj, SList)) and e.key in ("remove", "discard", "pop")
                and (_split_of(e.target) is not None or isinstance(e.target, SList))]
        for e in muts:
            if e.key == "remove":
                ctx.fail("C16.remove", where, f"{short(e.target)}.remove(...)",
                         "remove_class uses list.remove(), which deletes only the first occurrence: a token that occurs twice survives and "
                         "has_class stays true", witness="div(class_='a b a').remove_class('a')")
        for w in r["writes"]:
            if w["via"] == "TagAttrDict.update" or (w["via"] == "TagAttrDict.__setitem__" and w["args"] and w["args"][0] == "class"):
                # attrs.update({"class": v}) and attrs["class"] = v both normalise v and replace the stored value
                nu += 1
                if w["via"] == "TagAttrDict.__setitem__":
                    val = w["args"][1] if len(w["args"]) > 1 else None
                else:
                    d = w["args"][0] if w["args"] else None
                    val = d.items.get("class") if isinstance(d, SDict) else None
                j = val.frags[0] if isinstance(val, SStr) and len(val.frags) == 1 and val.frags[0].kind == "OP" else None
                ok = j is not None and isinstance(j.a, tuple) and j.a[:2] == ("join", " ")
                if not ctx.check(ok, "C16.remove", "remaining tokens are re-joined with one space", where, f"update class={short(val)}",
                                 f"remove_class stores {short(val)}, not the remaining tokens joined by single spaces"):
                    continue
                pay = j.b
                seq = pay.get("seq")
                over = pay.get("over")
                if seq is not None:
                    # join over something that is not a comprehension: a set / sorted / mutated list
                    pt = getattr(seq, "pytype", None) or (seq.__dict__.get("pytype") if isinstance(seq, SOpaque) else None)
                    is_set = pt == "set" or (isinstance(seq, SOpaque) and str(seq.descr[0]) in ("set", "sub")) or (isinstance(seq, SObj) and seq.kinds <= {"SET"})
                    if is_set:
                        ctx.fail("C16.remove", where, f"' '.join({short(seq)})", "the remaining class tokens pass through a set: their order is lost "
                                 "(and differs between interpreter runs with different hash seeds)", witness="div(class_='a b c').remove_class('b')")
                    elif isinstance(seq, SList) and seq.mode == "carried" and _kept_by_loop(ctx, l, seq, arg, where):
                        pass
                    elif _split_of(seq) is not None and muts:
                        pass  # already reported via list.remove
                    elif _split_of(seq) is not None and any(
                            (l.run.atom_info.get(a_) or {}).get("container") is seq and v_ is False for a_, v_ in l.atoms):
                        ctx.ok("C16.remove", "when the token is absent the unchanged token list is re-joined")
                    else:
                        ctx.require(False, f"remove_class joins {short(seq)}: derivation of the remaining tokens not modelled")
                    continue
                lst = None
                so = _split_of(over)
                cond = pay.get("cond")
                var = pay.get("var")
                item = pay.get("item")
                ident = isinstance(item, SStr) and len(item.frags) == 1 and item.frags[0].kind == "OF" and isinstance(var, SObj) and item.frags[0].a[0] == var.uid
                ctx.check(so is not None and ident, "C16.remove", "remaining tokens are the elements of <class value>.split(), unchanged and in order", where,
                          f"join over {short(over)} of {short(item)}", f"the remaining tokens are derived from {short(over)} as {short(item)}, not the unchanged whitespace tokens in order")
                # the filter: element != stripped argument
                ml = [o for o in _all_lists(l) if o.mode == "map" and o.var is var]
                if not ml and isinstance(pay.get("map"), SList):
                    ml = [pay["map"]]        # a generator expression handed straight to join()
                atoms = ml[0].__dict__.get("cond_atoms", []) if ml else []
                nodes = ml[0].__dict__.get("cond_nodes", []) if ml else []
                import ast as _ast
                good = len(nodes) == 1 and isinstance(nodes[0], _ast.Compare) and len(nodes[0].ops) == 1 and isinstance(nodes[0].ops[0], _ast.NotEq)
                eqs = [a for a, _ in atoms if isinstance(a, tuple) and a[0] == "eq"]
                other = None
                if good and len(eqs) == 1:
                    l_, r_ = eqs[0][1], eqs[0][2]
                    l_ = l_.v if isinstance(l_, _K) else l_
                    r_ = r_.v if isinstance(r_, _K) else r_
                    cv = ml[0].__dict__.get("cond_var", var)
                    other = r_ if l_ is cv else l_ if r_ is cv else None
                tok_ok = other is arg or (isinstance(other, SStr) and _strip_of(other, arg))
                ctx.check(good and tok_ok, "C16.remove", "tokens are kept iff they differ (!=) from the stripped argument", where,
                          f"filter {cond} against {short(other)}", f"remove_class filters tokens with `{cond}`: not `token != <argument>` (exact token comparison)",
                          witness="div(class_='foo foobar').remove_class('foo') must keep foobar")
            elif w["via"] in ("dict.pop", "del_item"):
                npop += 1
                ctx.check((w["args"] and w["args"][0] == "class") or w.get("key") == "class" or (w["args"] == ["class"]), "C16.remove",
                          "the class attribute is dropped when no token remains", where, f"{w['via']} {w['args']}", "remove_class pops a different attribute")
            else:
                ctx.require(False, f"remove_class writes via {w['via']}")
    ctx.min_count("remove_class update paths", nu, 1)
    ctx.min_count("remove_class pop paths", npop, 1)
    # ---------------- css() -------------------------------------------------------------------------------------------------------------------
    css_obligations(ctx)
    # add_class / add_style rely on attrs.update joining every value given for one name, in order (rules C15.*, shared with C15)
    from .c15 import update_obligations
    update_obligations(ctx)
    # the helpers are also used on copies (tagify() / copy()): the copy's attribute map is still a TagAttrDict
    from ..interp import Interp as _I
    from .c08 import copy_field_kinds
    copy_field_kinds(ctx, _I(prog), rule="C16.update")


def _kept_by_loop(ctx: Ctx, l: Any, seq: SList, arg: SObj, where: str) -> bool:
    """kept = []; for tok in <class value>.split(): if tok != <stripped argument>: kept.append(tok)"""
    from ..loopbuilt import contributions, iter_base
    cs = contributions(l, seq)
    recs = [r for r in l.run.loops if _split_of(iter_base(r.iter_value)) is not None]
    if not recs:
        return False
    el = recs[0].__dict__.get("element")
    eqs = [(a, v) for a, v in l.atoms if isinstance(a, tuple) and a[0] == "eq" and any((x.v if isinstance(x, _K) else x) is el for x in a[1:3])]
    if len(eqs) != 1:
        return False
    a, v = eqs[0]
    other = [x.v if isinstance(x, _K) else x for x in a[1:3] if (x.v if isinstance(x, _K) else x) is not el][0]
    tok_ok = other is arg or (isinstance(other, SStr) and _strip_of(other, arg))
    appended = [c for c in cs if c["how"] == "append" and c["loop"] is recs[0] and c["value"] is el]
    good = tok_ok and ((v is False and len(appended) == 1 and len(cs) == 1) or (v is True and not cs))
    ctx.check(good, "C16.remove", "a token is appended to the kept list iff it differs (!=) from the stripped argument, in split() order", where,
              f"token {'==' if v else '!='} argument: appends {[short(c['value']) for c in cs]}",
              "remove_class does not keep exactly the tokens that differ from the argument", witness="div(class_='foo foobar foo').remove_class('foo')")
    return True


def _of(recv: Any, obj: SObj) -> bool:
    return isinstance(recv, SStr) and len(recv.frags) == 1 and recv.frags[0].kind == "OF" and recv.frags[0].a[0] == obj.uid


def _strip_of(v: SStr, arg: SObj) -> bool:
    """v is str(arg).strip() (or arg.strip())."""
    if len(v.frags) != 1:
        return False
    f = v.frags[0]
    if f.kind == "OP" and isinstance(f.a, tuple) and f.a == ("str.strip",):
        return _of(f.b, arg)
    return False


def _all_objs(leaf: Any) -> List[Any]:
    out = list(leaf.run.elem_memo.values())
    for e in leaf.effects:
        for x in (e.target, e.value):
            out.append(x)
    env = leaf.env or {}
    out.extend(env.values())
    return [o for o in out if isinstance(o, (SObj, SOpaque))]


def _all_lists(leaf: Any) -> List[SList]:
    out = [v for v in (leaf.env or {}).values() if isinstance(v, SList)]
    return out


def css_obligations(ctx: Ctx) -> None:
    prog = ctx.prog
    I = Interp(prog)
    fn = prog.function("htmltools._util", "css")
    a = fn.args
    ctx.require(a.kwarg is not None and len(a.args) == 1, "css signature changed")
    d = prog.fold(a.defaults[0], prog.util()) if a.defaults else None
    ctx.check(d == "", "C16.css", "css default separator is ''", CSS, f"default {a.args[0].arg}={d!r}", "the default separator of css() changed: its output may no longer end in ';'")

    def mk(run: Any):
        kw = SDict(name="kwargs", concrete=False)
        kw.__dict__["value_kinds"] = {"STR", "INT", "FLOAT", "NONE", "LIST"}
        c = SObj("collapse_", {"STR"})
        run.__dict__["o"] = (kw, c)
        return ({a.args[0].arg: c, a.kwarg.arg: kw}, None)

    cfg = Config()
    # the loop over the keyword arguments, in css() itself or in a helper / generator it consumes
    key = None
    cfg0 = Config()
    cfg0.loop_effects = False
    for l0 in I.run_function("htmltools._util", "css", mk, cfg0):
        for rec0 in l0.run.loops:
            d0 = getattr(rec0.iter_value, "iter_descr", None)
            if key is None and d0 is not None and d0[0] == "items" and d0[1] is l0.run.__dict__["o"][0]:
                key = rec0.__dict__.get("loop_key")
    cfg.stop_at_loop = key or ("css", 0)
    n = 0
    probes_covered: set = set()
    for l in I.run_function("htmltools._util", "css", mk, cfg):
        rec = getattr(l.run, "stop_loop_record", None)
        if rec is None:
            continue
        kw, c = l.run.__dict__["o"]
        el = rec.__dict__.get("element")
        ctx.require(isinstance(el, SList) and len(el.items) == 2, "css: loop does not unpack (key, value)")
        k, v = el.items
        dsc = getattr(rec.iter_value, "iter_descr", None)
        ctx.check(dsc is not None and dsc[0] == "items" and dsc[1] is kw, "C16.css", "css iterates its keyword arguments in order", CSS,
                  f"for ... in {short(rec.iter_value)}", "css does not walk kwargs.items() directly: declaration order may change")
        accs = [nme for nme in rec.carried if isinstance(l.env.get(nme), SStr) and l.env[nme].frags[:1] and l.env[nme].frags[0].kind == "ACC"]
        stores = [e for e in l.effects[rec.__dict__.get("body_effect_start", 0):] if e.kind in ("store_item", "mutcall")]
        kinds = "|".join(sorted(v.kinds))
        if v.kinds <= {"NONE"}:
            appended = any(len(l.env[nme].frags) > 1 for nme in accs)
            ctx.check(not appended and not stores and l.kind in ("continue", "fall"), "C16.css", "a None argument contributes nothing", CSS,
                      f"None: {l.kind}", "a None property value produces output")
            continue
        n += 1
        list_apps = [e for e in stores if e.kind == "mutcall" and e.key == "append" and isinstance(e.target, SList) and e.target.mode == "carried"
                     and e.value and isinstance(e.value[0], SStr)]
        if len(list_apps) == 1 and len(stores) == 1 and not any(len(l.env[nme].frags) > 1 for nme in accs):
            # declarations.append(<decl>) ... "".join(declarations): the same stream as `res += <decl>`
            fr = list(list_apps[0].value[0].frags)
            accs = []
        elif stores and not any(len(l.env[nme].frags) > 1 for nme in accs):
            tgt = stores[0].target
            ctx.fail("C16.css", CSS, f"{stores[0].kind} into {short(tgt)}",
                     "css() collects declarations in a container keyed by the normalised name instead of appending one declaration per "
                     "argument: two arguments that normalise to the same property are merged and reordered",
                     witness="css(font_size='12px', color='red', fontSize='1rem')")
            continue
        if accs or not list_apps:
            ctx.require(len(accs) == 1, f"css: no single string accumulator ({rec.carried})")
            fr = list(l.env[accs[0]].frags[1:])
        # shape: KEY ':' VALUE ';' COLLAPSE
        lits = [f.a for f in fr if f.kind == "LIT"]
        shape_ok = len(fr) == 5 and fr[1].kind == "LIT" and fr[1].a == ":" and fr[3].kind == "LIT" and fr[3].a == ";" \
            and fr[4].kind == "OF" and fr[4].a[0] == c.uid
        if not ctx.check(shape_ok, "C16.css", f"a {kinds} argument appends name ':' value ';' separator", CSS, f"{kinds}: appends {fr}",
                         f"for a {kinds} value css appends {fr} instead of name ':' value ';' separator (its output would not be accepted by add_style)",
                         witness="css(color='red') == 'color:red;'"):
            continue
        # key pipeline on sample names
        keyf = SStr([fr[0]])
        preds = [(a_, v_, l.run.atom_info[a_]["recv"]) for a_, v_ in l.atoms
                 if isinstance(a_, tuple) and a_ and a_[0] in ("islower", "isupper", "isalpha", "isalnum", "isascii", "isidentifier", "istitle", "isdigit", "isspace")
                 and isinstance(l.run.atom_info.get(a_), dict) and l.run.atom_info[a_].get("recv") is not None]
        for w in CSS_PROBES:
            # a path taken only by names with a certain character make-up (a fast path) is tried on the samples that take it
            try:
                if any(getattr(eval_sstr(r_, {k.uid: w, "__interp__": I}), a_[0])() is not v_ for a_, v_, r_ in preds):
                    continue
            except Exception:
                pass
            probes_covered.add(w)
            got = eval_sstr(keyf, {k.uid: w, "__interp__": I})
            ctx.check(got == spec_css_key(w), "C16.csskey", f"css name {w!r} -> {spec_css_key(w)!r}", CSS, f"{w!r} -> {got!r}",
                      f"the property name {w!r} is written as {got!r}; camelCase/underscore normalisation gives {spec_css_key(w)!r}",
                      witness=f"css({w}='v')")
    ctx.min_count("css body paths with a value", n, 2)
    ctx.require(probes_covered >= set(CSS_PROBES), f"css: no path of the loop body covers the sample names {sorted(set(CSS_PROBES) - probes_covered)}")
    # summary: None iff nothing appended
    cfg2 = Config()
    cfg2.loop_effects = False
    for l in I.run_function("htmltools._util", "css", mk, cfg2):
        if l.kind == "raise":
            continue
        ne = [v for a_, v in l.atoms if isinstance(a_, tuple) and a_[0] in ("nonempty", "eq")]
        if l.value is None:
            ctx.check(ne == [False] or ne == [True] and False, "C16.css", "css returns None only when nothing was appended", CSS, f"None under {l.atoms}",
                      "css returns None although declarations were produced") if ne else ctx.fail("C16.css", CSS, "unconditional None", "css always returns None")
        else:
            toks = l.value.frags if isinstance(l.value, SStr) else None
            ctx.check(toks is not None and len(toks) == 1 and toks[0].kind == "LOOP", "C16.css", "css returns exactly the accumulated declarations", CSS,
                      f"returns {short(l.value)}", f"css returns {short(l.value)}, not just the accumulated declarations")
