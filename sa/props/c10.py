"""C10 - dependencies are validated, then resolve one per name to the highest version (DESIGN 4, C10)."""

from __future__ import annotations

import ast
from typing import Any, Dict, List, Optional, Tuple

from ..eval_expr import _K
from ..interp import Config, Interp
from ..report import Ctx
from ..values import (ALL_KINDS, ANY_VALUE_KINDS, SBool, SDict, SList, SNew, SObj, SOpaque, SSplat, SStr, Sym, Unmodelled, short)

CORE = "htmltools._core"
RES = f"{CORE}:_resolve_dependencies"


def _unk(x: Any) -> Any:
    return x.v if isinstance(x, _K) else x


def _is_map_item(l: Any, uid: int, dep: Any) -> bool:
    """Is the object with this uid `map.get(dep.name)` / `map[dep.name]` of a dict created in the function?"""
    for o in l.run.elem_memo.values():
        if isinstance(o, SObj) and o.uid == uid and o.meta.get("item_of") is not None and isinstance(o.meta["item_of"][0], SDict):
            k = o.meta["item_of"][1]
            ao = k.meta.get("attr_of") if isinstance(k, SObj) else None
            return ao is not None and ao[0] is dep and ao[1] == "name"
    return False


def _attr_of(o: Any) -> Optional[Tuple[Any, str]]:
    if isinstance(o, SObj):
        return o.meta.get("attr_of")
    return None


def resolve_table(ctx: Ctx, I: Interp) -> None:
    prog = ctx.prog
    fn = prog.function(CORE, "_resolve_dependencies")
    p = fn.args.args[0].arg

    def mk(run: Any):
        d = SObj("deps", {"LIST"})
        d.meta["elem_kinds"] = {"HTMLDEP"}
        run.__dict__["deps"] = d
        return ({p: d}, None)

    cfg = Config()
    cfg.stop_at_loop = ("_resolve_dependencies", 0)
    rows = {"unseen": [], "seen-gt": [], "seen-le": []}
    leaves = I.run_function(CORE, "_resolve_dependencies", mk, cfg)
    n = 0
    for l in leaves:
        rec = getattr(l.run, "stop_loop_record", None)
        if rec is None:
            continue
        n += 1
        dep = rec.__dict__.get("element")
        ctx.require(isinstance(dep, SObj), "_resolve_dependencies: loop target is not a single dependency")
        it = rec.iter_value
        ctx.check(it is l.run.__dict__["deps"], "C10.order", "resolution iterates the dependency list forward, as given", RES,
                  f"for ... in {short(it)}", f"resolution iterates {short(it)} instead of the list itself: first-occurrence order / tie-breaking changes")
        start = rec.__dict__.get("body_effect_start", 0)
        stores = [e for e in l.effects[start:] if e.kind in ("store_item", "mutcall", "del_item", "store_attr")]
        seen = None
        cmpa = None
        other = []
        for atom, val in l.atoms:
            if isinstance(atom, tuple) and atom[0] == "in" and isinstance(atom[2], tuple) and atom[2][:1] == ("coll",):
                key = _unk(atom[1])
                ao = _attr_of(key)
                ctx.check(ao is not None and ao[0] is dep and ao[1] == "name", "C10.key", "the seen-test is keyed by dep.name", RES,
                          f"{short(key)} in <map>", f"de-duplication is keyed by {short(key)}, not by the dependency's name")
                seen = bool(val)
            elif isinstance(atom, tuple) and atom[0] == "is" and atom[2] == "NONE" and _is_map_item(l, atom[1], dep):
                seen = not str(val).startswith("is None")      # `cur = map.get(dep.name)` ... `cur is None`
            elif isinstance(atom, tuple) and atom[0] == "cmp":
                cmpa = (atom, val)
            elif isinstance(atom, tuple) and atom[0] in ("isinstance", "kind", "kindgroup") :
                continue
            elif isinstance(atom, tuple) and atom[0] in ("count", "len-cmp", "nonempty") and atom[1] == getattr(l.run.__dict__["deps"], "uid", None):
                continue      # a test of the input list's length before the loop (fast path for empty input)
            else:
                other.append((atom, val))
        if other:
            raise Unmodelled(f"_resolve_dependencies: decision depends on {other[0][0]!r}")
        ctx.require(seen is not None, "_resolve_dependencies: a path does not test whether the name was seen")
        def is_store_dep(e: Any) -> bool:
            if e.kind != "store_item" or e.value is not dep:
                return False
            ao = _attr_of(_unk(e.key) if isinstance(e.key, _K) else e.key)
            return ao is not None and ao[0] is dep and ao[1] == "name"
        good_store = len(stores) == 1 and is_store_dep(stores[0])
        if not seen:
            ctx.check(good_store and cmpa is None, "C10.table", "unseen name -> map[dep.name] = dep", RES,
                      f"unseen: {[repr(e)[:60] for e in stores]}", f"a dependency with a new name is not recorded as map[dep.name] = dep: {[repr(e)[:60] for e in stores]}")
            continue
        if cmpa is None:
            ctx.fail("C10.table", RES, f"seen name without version comparison: {[repr(e)[:60] for e in stores]}",
                     "a dependency whose name was already seen is handled without comparing versions")
            continue
        atom, val = cmpa
        op, lo, ro = atom[1], _unk(atom[2]), _unk(atom[3])
        la, ra = _attr_of(lo), _attr_of(ro)
        # which side is the new dependency, which the kept one
        def is_new(a: Any) -> bool:
            return a is not None and a[0] is dep and a[1] == "version"
        def is_kept(a: Any) -> bool:
            if a is None or a[1] != "version" or not isinstance(a[0], SObj):
                return False
            io = a[0].meta.get("item_of")
            if io is None or not isinstance(io[0], SDict):
                return False
            k = _attr_of(io[1])
            return k is not None and k[0] is dep and k[1] == "name"
        if is_new(la) and is_kept(ra):
            new_gt = {">": True, ">=": None, "<": False, "<=": None}[op]
            rel = op
        elif is_kept(la) and is_new(ra):
            rel = {"<": ">", "<=": ">=", ">": "<", ">=": "<="}[op]
        else:
            ctx.fail("C10.operands", RES, f"{short(lo)} {op} {short(ro)}",
                     f"versions are compared as `{short(lo)} {op} {short(ro)}`, not as the two Version objects themselves "
                     f"(new.version vs kept.version): ordering is no longer the version-number ordering",
                     witness="deps 1.10 then 1.10.0, or 2.0rc1 then 2.0")
            continue
        # rel is now: new.version <rel> kept.version, with truth value val
        replaced = good_store
        kept = not stores
        ctx.require(replaced or kept, f"_resolve_dependencies: unexpected effects {[repr(e)[:60] for e in stores]}")
        # derive for which orderings (LT, EQ, GT of new vs kept) this path runs
        def holds(o: str) -> bool:
            t = {"<": o == "LT", "<=": o in ("LT", "EQ"), ">": o == "GT", ">=": o in ("GT", "EQ")}[rel]
            return t == bool(val)
        for o in ("LT", "EQ", "GT"):
            if not holds(o):
                continue
            want_replace = (o == "GT")
            ctx.check(replaced == want_replace, "C10.table", f"seen name, new version {o} kept -> {'replace' if want_replace else 'keep'}", RES,
                      f"new {o} kept -> {'replace' if replaced else 'keep'}",
                      f"when the new version is {o} the kept one the dependency is {'replaced' if replaced else 'kept'}; "
                      f"the rule is replace only if strictly greater (earliest object wins ties)",
                      witness="[dep('a','1.0',x), dep('a','1.0',y)] must keep x")
    ctx.min_count("resolve loop paths", n, 3)
    # summary: accumulator is a fresh dict, result is list(<dict>.values())
    for l in I.run_function(CORE, "_resolve_dependencies", mk, Config()):
        if l.kind != "return":
            continue
        v = l.value
        src = v.__dict__.get("of") if isinstance(v, SOpaque) and v.__dict__.get("pytype") == "list" else \
            (v.meta.get("copy_of") if isinstance(v, SObj) and v.meta.get("list_ctor") == "list" else None)
        if src is None and isinstance(v, SList) and v.mode == "concrete" and len(v.items) == 1 and isinstance(v.items[0], SSplat):
            src = v.items[0].value      # [*map.values()]
        ok = isinstance(src, SOpaque) and (src.__dict__.get("iter_descr") or (None,))[0] == "values" \
            and isinstance(src.__dict__["iter_descr"][1], SDict)
        deps_in = l.run.__dict__["deps"]
        if not ok and isinstance(v, (SList, list)) and not (v.items if isinstance(v, SList) else v) and (not isinstance(v, SList) or v.mode == "concrete") \
                and _empty_on_path(l.atoms, getattr(deps_in, "uid", None)):
            ctx.ok("C10.result", "an empty input list resolves to an empty list")
            continue
        ctx.check(ok, "C10.result", "result is list(<name->dependency dict>.values()) (insertion order, no re-sorting)", RES,
                  f"return {short(v)}", f"the resolved list is {short(v)}, not the insertion-ordered values of the name map: "
                  f"names are no longer ordered by first occurrence", witness="resolution of [b-1.0, a-1.0] must keep b first")


def _empty_on_path(atoms: Any, uid: Any) -> bool:
    cnt = [str(lab) for a, lab in atoms if isinstance(a, tuple) and a[0] == "count" and a[1] == uid]
    if cnt and all(c == "n=0" for c in cnt):
        return True
    for a, lab in atoms:
        if isinstance(a, tuple) and a[0] == "nonempty" and a[1] == uid and lab is False:
            return True
        if isinstance(a, tuple) and a[0] == "len-cmp" and a[1] == uid and (a[2], a[3]) == ("==", 0) and lab is True:
            return True
    return False


def _at_most_one(atoms: Any, v: Any) -> bool:
    """The path's count decisions on `v` bound its length by one."""
    uid = getattr(v, "uid", None)
    if uid is None:
        return False
    if any(isinstance(a[0], tuple) and a[0][0] == "nonempty" and a[0][1] == uid and a[1] is False for a in atoms):
        return True     # `not deps`: the collection is empty
    groups = [(a[0][2], a[1]) for a in atoms if isinstance(a[0], tuple) and a[0][0] == "count" and a[0][1] == uid]
    if not groups:
        return False
    covered = set()
    for ks, _ in groups:
        covered |= set(ks)
    from ..values import ALL_KINDS
    if covered != set(ALL_KINDS):
        return False
    n = 0
    for _, lab in groups:
        if lab == "n=0":
            continue
        if lab == "n=1":
            n += 1
        else:
            return False
    return n <= 1


def collection_table(ctx: Ctx, I: Interp) -> None:
    prog = ctx.prog
    where = f"{CORE}:TagList.get_dependencies"
    fn = prog.function(CORE, "TagList.get_dependencies")
    ded = [a.arg for a in fn.args.args[1:] + fn.args.kwonlyargs]
    ctx.require(ded == ["dedup"], "TagList.get_dependencies signature changed")

    def mk(run: Any):
        s = SObj("self", {"TAGLIST"})
        run.__dict__["self_obj"] = s
        return ({fn.args.args[0].arg: s, "dedup": SBool(("param", "dedup"))}, s)

    cfg = Config()
    cfg.opaque = {"Tag.get_dependencies", "_resolve_dependencies", "TagList.get_dependencies"}
    # the loop over the children, wherever it lives (in the method itself or in a helper / generator it consumes)
    key = None
    cfg0 = Config()
    cfg0.opaque = set(cfg.opaque)
    cfg0.loop_effects = False
    for l0 in I.run_function(CORE, "TagList.get_dependencies", mk, cfg0):
        for rec0 in l0.run.loops:
            if rec0.iter_value is l0.run.__dict__["self_obj"] and key is None:
                key = rec0.__dict__.get("loop_key")
    ctx.require(key is not None, "get_dependencies: no loop over the children")
    cfg.stop_at_loop = key
    seen_kinds = set()
    for l in I.run_function(CORE, "TagList.get_dependencies", mk, cfg):
        rec = getattr(l.run, "stop_loop_record", None)
        if rec is None:
            continue
        x = rec.__dict__.get("element")
        ctx.require(isinstance(x, SObj), "get_dependencies: loop target is not a single child")
        ctx.check(rec.iter_value is l.run.__dict__["self_obj"], "C10.collect", "collection iterates the children forward", where,
                  f"for ... in {short(rec.iter_value)}", "dependencies are not collected in document order")
        start = rec.__dict__.get("body_effect_start", 0)
        eff = [e for e in l.effects[start:] if e.kind in ("mutcall", "store_item", "call")]
        free = [a for a in l.atoms if not (isinstance(a[0], tuple) and a[0][0] in ("isinstance", "kind", "kindgroup") and a[0][1] == x.uid)]
        cond = f" (only when {free[0][0][0]} ...)" if free else ""
        for k in sorted(x.kinds):
            seen_kinds.add(k)
            muts = [e for e in eff if e.kind == "mutcall"]
            if k == "HTMLDEP":
                def _adds_exactly(m_: Any) -> bool:
                    # append(x)  ==  extend([x]) / += (x,)
                    if not m_.value:
                        return False
                    a0 = m_.value[0]
                    if m_.key == "append":
                        return a0 is x
                    if m_.key in ("extend", "__iadd__"):
                        its = a0.items if isinstance(a0, SList) and a0.mode == "concrete" else list(a0) if isinstance(a0, (list, tuple)) else None
                        return its is not None and len(its) == 1 and its[0] is x
                    return False
                ok = len(muts) == 1 and _adds_exactly(muts[0]) and l.kind in ("fall", "continue")
                ctx.check(ok, "C10.collect", "a dependency child is appended to the result", where, f"HTMLDEP: {[repr(e)[:50] for e in muts]}{cond}",
                          f"a dependency child is not unconditionally appended{cond}: with dedup disabled something is dropped or reordered",
                          witness="TagList(a, b, a).get_dependencies(dedup=False)")
            elif k == "TAG":
                calls = [e for e in eff if e.kind == "call" and getattr(e.target, "qual", "") == "Tag.get_dependencies"]
                ok = len(muts) == 1 and muts[0].key in ("extend", "__iadd__") and len(calls) == 1 and calls[0].key is x
                kw = (calls[0].extra or {}).get("kwargs", {}) if calls else {}
                args = calls[0].value if calls else []
                nodedup = (kw.get("dedup") is False) or (args and args[0] is False)
                ctx.check(ok and nodedup, "C10.collect", "a tag child contributes x.get_dependencies(dedup=False), extended in place", where,
                          f"TAG: {[repr(e)[:60] for e in eff]}{cond}",
                          f"a nested tag's dependencies are not collected with dedup=False and appended in order{cond}: "
                          f"resolution would depend on where in the tree the objects sit")
            else:
                ctx.check(not muts, "C10.collect", f"a {k} child contributes nothing", where, f"{k}: {[repr(e)[:50] for e in muts]}",
                          f"a child of kind {k} adds to the dependency list")
    ctx.require({"HTMLDEP", "TAG"} <= seen_kinds, "get_dependencies: no path for dependency / tag children")
    # summary: resolution applied iff dedup
    cfg2 = Config()
    cfg2.opaque = set(cfg.opaque)
    cfg2.loop_effects = False
    for l in I.run_function(CORE, "TagList.get_dependencies", mk, cfg2):
        if l.kind != "return":
            continue
        memo = l.run.path.memo
        d = memo.get(("param", "dedup"))
        ctx.require(d is not None, "get_dependencies: result does not depend on `dedup`")
        dedup = d == 0
        v = l.value
        is_resolved = isinstance(v, SObj) and (v.meta.get("call") or {}).get("func") is not None and v.meta["call"]["func"].qual == "_resolve_dependencies"
        if dedup and not is_resolved and _at_most_one(l.atoms, v):
            # resolution of a list of at most one dependency is that list (C10.table: an unseen name is kept)
            ctx.check(True, "C10.dedup", "dedup=True: a collection of at most one dependency is returned as it is", where, f"dedup=True, len <= 1 -> {short(v)}", "")
            continue
        ctx.check(is_resolved == dedup, "C10.dedup", f"dedup={dedup}: result is {'resolved' if dedup else 'the raw collection'}", where,
                  f"dedup={dedup} -> {short(v)}", f"with dedup={dedup} the result is {short(v)}")
    dedup_defaults(ctx)
    # Tag.get_dependencies forwards dedup
    fn2 = prog.function(CORE, "Tag.get_dependencies")
    w2 = f"{CORE}:Tag.get_dependencies"

    def mk2(run: Any):
        s = SObj("self", {"TAG"})
        d = SBool(("param", "dedup"))
        run.__dict__["d"] = d
        run.__dict__["s"] = s
        return ({fn2.args.args[0].arg: s, "dedup": d}, s)

    cfg3 = Config()
    cfg3.opaque = {"TagList.get_dependencies"}
    for l in I.run_function(CORE, "Tag.get_dependencies", mk2, cfg3):
        calls = [e for e in l.effects if e.kind == "call" and getattr(e.target, "qual", "") == "TagList.get_dependencies"]
        ok = len(calls) == 1 and calls[0].key is l.run.__dict__["s"].attrs.get("children")
        kw = (calls[0].extra or {}).get("kwargs", {}) if calls else {}
        fwd = kw.get("dedup") is l.run.__dict__["d"] or (calls and calls[0].value and calls[0].value[0] is l.run.__dict__["d"])
        ctx.check(bool(ok and fwd), "C10.dedup", "Tag.get_dependencies forwards dedup to its children", w2,
                  f"{[repr(e)[:70] for e in calls]} kwargs={ {k: short(v) for k, v in kw.items()} }",
                  "Tag.get_dependencies does not forward `dedup` to self.children.get_dependencies: nested levels would be de-duplicated separately")


def version_field(ctx: Ctx) -> None:
    prog = ctx.prog
    ci = prog.get_class("HTMLDependency")
    ctx.require(ci is not None, "anchor vanished: HTMLDependency")
    where = f"{CORE}:HTMLDependency.__init__"
    stores = []
    for mn, fn in ci.methods.items():
        for n in ast.walk(fn):
            if isinstance(n, (ast.Assign, ast.AnnAssign, ast.AugAssign)):
                tg = n.targets if isinstance(n, ast.Assign) else [n.target]
                for t in tg:
                    if isinstance(t, ast.Attribute) and t.attr == "version" and isinstance(t.value, ast.Name) and t.value.id == "self":
                        stores.append((mn, n))
    ctx.require(bool(stores), "HTMLDependency.version is never assigned")
    for mn, n in stores:
        ctx.check(mn == "__init__", "C10.version", "self.version is assigned only in __init__", f"{CORE}:HTMLDependency.{mn}",
                  ast.unparse(n), "the version field is re-assigned after construction")


def init_validation(ctx: Ctx, I: Interp) -> None:
    prog = ctx.prog
    fn = prog.function(CORE, "HTMLDependency.__init__")
    where = f"{CORE}:HTMLDependency.__init__"
    req = {"script": ["src"], "stylesheet": ["href"], "meta": ["name", "content"]}
    # required keys agree with the TypedDict bases
    for fld, base in (("script", "ScriptItemBaseAttrs"), ("stylesheet", "StylesheetItemBaseAttrs"), ("meta", "MetaItemBaseAttrs")):
        bc = prog.get_class(base)
        if bc is not None:
            ctx.check(sorted(bc.annotations) == sorted(req[fld]), "C10.valid", f"required keys of {fld} items match {base}", f"{CORE}:{base}",
                      f"{base} fields {sorted(bc.annotations)}", f"{base} declares {sorted(bc.annotations)} but the property requires {req[fld]}")
    names = [a.arg for a in fn.args.args] + [a.arg for a in fn.args.kwonlyargs]
    for fld in ("script", "stylesheet", "meta", "source", "version"):
        ctx.require(fld in names, f"HTMLDependency.__init__ has no parameter `{fld}`")
    # the validators as methods (interpreted through their call sites and their own tables), or - when a refactoring has folded
    # them into other code - validation decided from the paths of the constructor itself
    has_validators = prog.has_function(CORE, "HTMLDependency._validate_dicts") and prog.has_function(CORE, "HTMLDependency._validate_dict")
    cfg = Config()
    cfg.opaque = {"HTMLDependency._validate_dicts"}
    if not has_validators:
        cfg.opaque_all = True
        cfg.coarse_counts = True

    def mk(run: Any):
        s = SNew(prog.get_class("HTMLDependency"))
        b: Dict[str, Any] = {fn.args.args[0].arg: s}
        objs: Dict[str, Any] = {}
        for nme in names[1:]:
            if nme in req:
                o = SObj(nme, {"NONE", "DICT", "LIST"} if has_validators else {"NONE"})
            elif nme == "source":
                o = SObj(nme, {"NONE", "DICT", "STR", "LIST", "OTHER"})
            elif nme == "version":
                o = SObj(nme, {"STR", "VERSION"})
            elif nme == "head":
                o = None
            elif nme == "all_files":
                o = False
            else:
                o = SObj(nme, {"STR"})
            b[nme] = o
            objs[nme] = o
        run.__dict__["objs"] = objs
        run.__dict__["s"] = s
        return b, s

    leaves = I.run_function(CORE, "HTMLDependency.__init__", mk, cfg, )
    n_ok = 0
    for l in leaves:
        objs, s = l.run.__dict__["objs"], l.run.__dict__["s"]
        src = objs["source"]
        if l.kind == "raise":
            continue
        n_ok += 1
        # source: only None or dict survives
        ctx.check(src.kinds <= {"NONE", "DICT"}, "C10.valid", "a non-dict source is rejected at construction", where,
                  f"source kind {'|'.join(sorted(src.kinds))} accepted", f"a `source` of kind {'|'.join(sorted(src.kinds))} is accepted",
                  witness="HTMLDependency('a', '1', source='dir')")
        if src.kinds <= {"DICT"}:
            keytests = {}
            for atom, val in l.atoms:
                if isinstance(atom, tuple) and atom[0] == "in" and not isinstance(atom[1], _K) and isinstance(atom[1], str) and atom[2] == ("coll", src.uid):
                    keytests[atom[1]] = bool(val)
            ctx.check(keytests.get("href") or keytests.get("subdir"), "C10.valid", "a source dict must have href or subdir", where,
                      f"source dict accepted with key tests {keytests}", "a source with neither `href` nor `subdir` is accepted",
                      witness="HTMLDependency('a', '1', source={'package': 'x'})")
        stores = {e.key: e for e in l.effects if e.kind == "store_attr" and e.target is s and not e.__dict__.get("in_loop")}
        order = [e for e in l.effects if (e.kind == "store_attr" and e.target is s) or (e.kind == "call" and getattr(e.target, "qual", "") == "HTMLDependency._validate_dicts")]
        for fld, keys in req.items():
            arg = objs[fld]
            st = stores.get(fld)
            ctx.require(st is not None, f"HTMLDependency.__init__ does not store self.{fld}")
            val = st.value
            vcalls = [e for e in order if e.kind == "call" and e.value and e.value[0] is val]
            idx_store = order.index(st)
            before = [e for e in vcalls if order.index(e) < idx_store]
            kind = "|".join(sorted(arg.kinds))
            def _req(e: Any) -> Any:
                """the required-keys argument of a _validate_dicts call, positional or by keyword"""
                if len(e.value) > 1:
                    return e.value[1]
                kw_ = (e.extra or {}).get("kwargs") or {}
                return kw_.get("req_attr", next(iter(kw_.values()), None)) if kw_ else None
            good_keys = bool(before) and _const_list(_req(before[0])) == keys
            ctx.check((bool(before) and good_keys) or not has_validators, "C10.valid", f"{fld} ({kind}) is validated with required keys {keys} before it is stored", where,
                      f"{fld} given as {kind}: validation calls {[ (short(e.value[0]), _const_list(_req(e))) for e in vcalls]}",
                      f"`{fld}` given as {kind} is stored without being validated for {keys} first"
                      f"{' (validated keys: ' + str(_const_list(_req(vcalls[0]))) + ')' if vcalls else ''}",
                      witness={"script": "HTMLDependency('a','1', script={'href': 'x.js'})", "stylesheet": "HTMLDependency('a','1', stylesheet={'src': 'x.css'})",
                               "meta": "HTMLDependency('a','1', meta={'name': 'x'})"}[fld])
            # normalisation: None -> [], dict -> [dict], list -> itself
            if arg.kinds <= {"NONE"}:
                okn = isinstance(val, SList) and val.mode in ("concrete", "carried") and not val.items
            elif arg.kinds <= {"DICT"}:
                okn = isinstance(val, SList) and len(val.items) == 1 and val.items[0] is arg
            else:
                okn = val is arg
            ctx.check(okn, "C10.valid", f"{fld} given as {kind} is normalised to a list", where, f"{fld} {kind} -> {short(val)}",
                      f"`{fld}` given as {kind} is stored as {short(val)}: a single item and a one-element list no longer behave identically")
        ver = objs["version"]
        vst = stores.get("version")
        ctx.require(vst is not None, "HTMLDependency.__init__ does not store self.version")
        if ver.kinds <= {"STR", "JSXEXPR"}:
            v = vst.value
            okv = isinstance(v, SObj) and v.kinds <= {"VERSION"} and v.meta.get("version_of") is ver
            ctx.check(okv, "C10.version", "a str version is parsed with packaging.version.Version", where, f"self.version = {short(v)}",
                      f"a string version is stored as {short(v)}: versions would compare lexically (1.9 > 1.10)",
                      witness="HTMLDependency('a','1.10') vs HTMLDependency('a','1.9')")
        else:
            ctx.check(vst.value is ver, "C10.version", "a Version object is stored as is", where, f"self.version = {short(vst.value)}", "a Version argument is transformed")
    ctx.min_count("HTMLDependency.__init__ accepting paths", n_ok, 4)
    # _validate_dicts / _validate_dict tables
    if has_validators:
        _validate_tables(ctx, I)
    else:
        _validation_by_paths(ctx, I, fn, names, req)


def _validation_by_paths(ctx: Ctx, I: Interp, fn: Any, names: List[str], req: Dict[str, List[str]]) -> None:
    """The item validation read off the constructor's own paths (no separate validator methods): for script / stylesheet / meta
    given as one dict or as a list, every path that *returns* has tested the item to be a dict holding all required keys, a
    non-dict item raises TypeError and a missing key KeyError."""
    prog = ctx.prog
    where = f"{CORE}:HTMLDependency.__init__"
    wit = {"script": "HTMLDependency('a','1', script={'href': 'x.js'})", "stylesheet": "HTMLDependency('a','1', stylesheet={'src': 'x.css'})",
           "meta": "HTMLDependency('a','1', meta={'name': 'x'})"}
    for fld, keys in req.items():
        for shape in ("DICT", "LIST"):
            def mk(run: Any, fld: str = fld, shape: str = shape):
                s = SNew(prog.get_class("HTMLDependency"))
                b: Dict[str, Any] = {fn.args.args[0].arg: s}
                for nme in names[1:]:
                    if nme == fld:
                        o = SObj(nme, {shape})
                        if shape == "LIST":
                            o.meta["elem_kinds"] = frozenset({"DICT", "STR", "LIST", "NONE", "OTHER"})
                        run.__dict__["o"] = o
                    elif nme in req or nme in ("source", "head"):
                        o = None
                    elif nme == "version":
                        o = SObj(nme, {"VERSION"})
                    elif nme == "all_files":
                        o = False
                    else:
                        o = SObj(nme, {"STR"})
                    b[nme] = o
                return b, s

            cfg = Config()
            cfg.coarse_counts = True
            n_ret = n_tested = 0
            for l in I.run_function(CORE, "HTMLDependency.__init__", mk, cfg):
                o = l.run.__dict__["o"]
                recs = [r for r in l.run.loops if r.iter_value is o and isinstance(r.__dict__.get("element"), SObj)]
                if l.kind == "return" and any(r.__dict__.get("sample_exited") for r in recs):
                    continue        # the sampled item made an iteration raise: that case is a raising path of its own
                items = [o] if shape == "DICT" else [r.__dict__["element"] for r in recs]
                tests = []
                for it in items:
                    isdict = True if shape == "DICT" else None
                    present: Dict[str, bool] = {}
                    for atom, val in l.atoms:
                        if isinstance(atom, tuple) and atom[0] == "isinstance" and atom[1] == it.uid and "dict" in str(atom[2]).lower():
                            isdict = not str(val).startswith("not")
                        if isinstance(atom, tuple) and atom[0] == "in" and isinstance(atom[1], str) and atom[2] == ("coll", it.uid):
                            present[atom[1]] = bool(val)
                    tests.append((isdict, present))
                if l.kind == "return":
                    n_ret += 1
                    good = [t for t in tests if t[0] is True and all(t[1].get(k) is True for k in keys)]
                    n_tested += 1 if good else 0
                    ctx.check(bool(good), "C10.valid", f"{fld} ({shape.lower()}): an item is accepted only as a dict holding {keys}", where,
                              f"{fld} given as {shape}: accepted with item tests {tests}",
                              f"an item of `{fld}` is accepted without having been tested to be a dict that holds {keys} (tests made on this path: {tests})",
                              witness=wit[fld])
                else:
                    for isdict, present in tests:
                        if isdict is False:
                            ctx.check(getattr(l.value, "cls_name", "") == "TypeError", "C10.valid", f"{fld}: a non-dict item raises TypeError", where,
                                      f"non-dict item: raise {getattr(l.value, 'cls_name', '?')}", "a non-dict item is rejected with the wrong exception")
                        elif any(present.get(k) is False for k in keys):
                            ctx.check(getattr(l.value, "cls_name", "") == "KeyError", "C10.valid", f"{fld}: a missing required key raises KeyError", where,
                                      f"missing key: raise {getattr(l.value, 'cls_name', '?')}", "an item lacking a required key is rejected with the wrong exception")
            ctx.require(n_ret >= 1, f"HTMLDependency.__init__ never returns for {fld} given as {shape}")
            ctx.check(n_tested >= 1, "C10.valid", f"{fld} ({shape.lower()}) is validated for {keys}", where, f"{fld} given as {shape}: no item test on any returning path",
                      f"`{fld}` given as {shape} is stored without its items being validated for {keys}", witness=wit[fld])


def _const_list(v: Any) -> Any:
    if isinstance(v, (list, tuple)):
        return list(v)
    if isinstance(v, SList) and v.mode == "concrete":
        return list(v.items)
    return short(v)


def _validate_tables(ctx: Ctx, I: Interp) -> None:
    prog = ctx.prog
    fn = prog.function(CORE, "HTMLDependency._validate_dict")
    where = f"{CORE}:HTMLDependency._validate_dict"
    ps = [a.arg for a in fn.args.args + fn.args.kwonlyargs]
    ctx.require(len(ps) == 3, "_validate_dict signature changed")
    for req in (["src"], ["name", "content"]):
        def mk(run: Any, req: List[str] = req):
            s = SNew(prog.get_class("HTMLDependency"))
            s.attrs["name"] = "n"
            s.attrs["version"] = "v"
            d = SObj("d", {"DICT", "STR", "LIST", "NONE", "OTHER"})
            run.__dict__["d"] = d
            return ({ps[0]: s, ps[1]: d, ps[2]: list(req)}, s)

        for l in I.run_function(CORE, "HTMLDependency._validate_dict", mk, Config()):
            d = l.run.__dict__["d"]
            if not (d.kinds <= {"DICT"}):
                ctx.check(l.kind == "raise" and getattr(l.value, "cls_name", "") == "TypeError", "C10.valid", "a non-dict item raises TypeError", where,
                          f"item kind {'|'.join(sorted(d.kinds))}: {l.kind}", f"an item of kind {'|'.join(sorted(d.kinds))} is accepted",
                          witness="HTMLDependency('a','1', script=['x.js'])")
                continue
            present = {}
            for atom, val in l.atoms:
                if isinstance(atom, tuple) and atom[0] == "in" and isinstance(atom[1], str):
                    present[atom[1]] = bool(val)
            missing = [k for k in req if present.get(k) is False]
            untested = [k for k in req if k not in present]
            if l.kind == "return":
                ctx.check(not missing and not untested, "C10.valid", f"an item passes only if all of {req} are present", where,
                          f"accepted with key tests {present} (required {req})",
                          f"an item is accepted although {missing or untested} was {'missing' if missing else 'never checked'}",
                          witness="HTMLDependency('a','1', meta={'name': 'x'})")
            else:
                ctx.check(bool(missing) and getattr(l.value, "cls_name", "") == "KeyError", "C10.valid", "a missing required key raises KeyError", where,
                          f"raise {getattr(l.value, 'cls_name', '?')} with key tests {present}", "validation raises for a complete item or with the wrong exception")
    # _validate_dicts applies _validate_dict to every element with the same key list
    fn2 = prog.function(CORE, "HTMLDependency._validate_dicts")
    w2 = f"{CORE}:HTMLDependency._validate_dicts"
    ps2 = [a.arg for a in fn2.args.args + fn2.args.kwonlyargs]
    cfg = Config()
    cfg.opaque = {"HTMLDependency._validate_dict"}
    cfg.stop_at_loop = ("HTMLDependency._validate_dicts", 0)

    def mk2(run: Any):
        s = SNew(prog.get_class("HTMLDependency"))
        ld = SObj("ld", {"LIST"})
        ra = SObj("req_attr", {"LIST"})
        run.__dict__["o"] = (ld, ra)
        return ({ps2[0]: s, ps2[1]: ld, ps2[2]: ra}, s)

    n = 0
    for l in I.run_function(CORE, "HTMLDependency._validate_dicts", mk2, cfg):
        rec = getattr(l.run, "stop_loop_record", None)
        if rec is None:
            continue
        n += 1
        ld, ra = l.run.__dict__["o"]
        el = rec.__dict__.get("element")
        calls = [e for e in l.effects if e.kind == "call" and getattr(e.target, "qual", "") == "HTMLDependency._validate_dict"]
        def _second(e: Any) -> Any:
            if len(e.value) > 1:
                return e.value[1]
            kw_ = (e.extra or {}).get("kwargs") or {}
            return next(iter(kw_.values()), None)
        ok = rec.iter_value is ld and len(calls) == 1 and calls[0].value and calls[0].value[0] is el and _second(calls[0]) is ra
        free = [a for a in l.atoms if isinstance(a[0], tuple) and a[0][0] not in ("loop",)]
        ok = ok and l.kind in ("fall", "continue")      # ... and goes on to the next item
        ctx.check(ok and not free, "C10.valid", "_validate_dicts validates every item with the given key list", w2,
                  f"{[repr(e)[:70] for e in calls]} -> {l.kind} {'when ' + str(free[0][0][0]) if free else ''}",
                  "not every item of the list is validated with the required keys (the loop stops after an item, or skips some)",
                  witness="HTMLDependency('a', '1', script=[{'src': 'ok.js'}, {'href': 'no-src.js'}])")
    ctx.min_count("_validate_dicts loop paths", n, 1)


def dedup_defaults(ctx: Ctx, rule: str = "C10.dedup") -> None:
    """get_dependencies() without arguments reports the resolved list."""
    prog = ctx.prog
    for q_ in ("TagList.get_dependencies", "Tag.get_dependencies"):
        f_ = prog.function(CORE, q_)
        a_ = f_.args
        dm = dict(zip([x.arg for x in a_.args][len(a_.args) - len(a_.defaults):], a_.defaults))
        dm.update({x.arg: d for x, d in zip(a_.kwonlyargs, a_.kw_defaults) if d is not None})
        dflt = None
        try:
            dflt = prog.fold(dm["dedup"], prog.core()) if "dedup" in dm else None
        except Exception:
            pass
        ctx.check(dflt is True, rule, f"{q_}() resolves by default (dedup=True)", f"{CORE}:{q_}", f"default dedup={dflt!r}",
                  f"{q_}() called without arguments returns the unresolved collection (default dedup={dflt!r}): duplicates and lower versions are reported, "
                  f"and HTMLDocument hoists them", witness="div(dep_v1, dep_v2).get_dependencies()")


def render_reports_resolved(ctx: Ctx, I: Interp, rule: str = "C10.dedup") -> None:
    """Tag.render / TagList.render (which also produce HTMLDocument.render's dependency list and what save_html copies) report
    the *resolved* collection: get_dependencies is called with dedup left at its default or passed as True."""
    prog = ctx.prog
    for cls, kind in (("Tag", "TAG"), ("TagList", "TAGLIST")):
        q = f"{cls}.render"
        if not prog.has_function(CORE, q):
            continue
        where = f"{CORE}:{q}"
        fn = prog.function(CORE, q)
        cfg = Config()
        cfg.opaque_all = True

        def mk(run: Any, kind: str = kind, fn: Any = fn):
            s = SObj("self", {kind})
            return ({fn.args.args[0].arg: s}, s)

        n = 0
        for l in I.run_function(CORE, q, mk, cfg):
            if l.kind != "return":
                continue
            v = l.value
            d_ = None
            if isinstance(v, SDict):
                for k_, x_ in v.items.items():
                    if (k_.v if hasattr(k_, "v") else k_) == "dependencies":
                        d_ = x_
            c_ = (d_.meta.get("call") if isinstance(d_, SObj) else d_.__dict__.get("call") if isinstance(d_, SOpaque) else None) or {}
            qual = getattr(c_.get("func"), "qual", "")
            if qual == "_resolve_dependencies":
                n += 1
                ctx.ok(rule, f"{q} reports _resolve_dependencies(...) of what it collected")
                continue
            if not qual.endswith(".get_dependencies"):
                continue        # some other shape: not decided here
            n += 1
            kw = dict(c_.get("kwargs") or {})
            pos = list(c_.get("args") or [])
            d = kw.get("dedup", pos[0] if pos else True)
            ctx.check(d is True and len(pos) <= 1 and set(kw) <= {"dedup"}, rule, f"{q} reports the resolved dependencies (dedup left on)", where,
                      f"get_dependencies({', '.join([short(x) for x in pos] + [f'{k}={short(v_)}' for k, v_ in kw.items()])})",
                      f"{q} reports the collection obtained with dedup={short(d)}: render()['dependencies'] (and with it HTMLDocument.render's list and the "
                      f"directories save_html copies) contains superseded versions and duplicates, while the markup links only the resolved ones",
                      witness="HTMLDocument(div(dep_v2, dep_v1)).save_html(f, include_version=False)")


def check(ctx: Ctx) -> None:
    ctx.explanation = (
        "Engine A over _resolve_dependencies: the loop body is summarised per (name seen?, ordering of new.version vs "
        "kept.version) - the comparison atom must relate exactly the two Version attributes, and the three abstract orderings "
        "LT/EQ/GT must map to keep/keep/replace with unseen -> insert; the accumulator is a dict keyed by dep.name and the "
        "result is list(dict.values()). TagList.get_dependencies: per child kind (dependency -> append, tag -> extend with the "
        "child's dedup=False collection, other -> nothing), forward iteration, resolution applied iff dedup; "
        "Tag.get_dependencies forwards dedup. HTMLDependency.__init__ is interpreted over {None, dict, list} for "
        "script/stylesheet/meta and over source kinds: each is normalised to a list and validated with its required keys "
        "before being stored; _validate_dict/_validate_dicts tables; a str version is parsed by packaging's Version. "
        "Numeric ordering inside packaging is an axiom.")
    ctx.trust("packaging.version.Version ordering is the version-number ordering", "dict preserves insertion order; replacing a value keeps its position",
              "Engine A abstract semantics")
    I = Interp(ctx.prog)
    resolve_table(ctx, I)
    collection_table(ctx, I)
    render_reports_resolved(ctx, I)
    # what render() reports is collected from the expanded copy, and a component's conversion collects every metadata node it meets
    from ..report import SharedCtx
    from .c08 import render_uses_copy
    from .c20 import visitor_table
    render_uses_copy(SharedCtx(ctx, lambda r: "C10.render" if r == "C08.render" else None), I)
    visitor_table(SharedCtx(ctx, lambda r: "C10.jsx" if r == "C20.collect" else None), I)
    # a document reports the dependencies of all of its content: a lone <html>/<body> is only taken as the root when nothing else
    # (no dependency, no head_content()) stands next to it
    from .c11 import case_table
    case_table(SharedCtx(ctx, lambda r: "C10.render" if r == "C11.R2" else None, select=lambda w: "only when the content is exactly that one element" in w), I)
    version_field(ctx)
    init_validation(ctx, I)
