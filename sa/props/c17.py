"""C17 - the tag context manager restores the display hook and collects children in order (DESIGN 4, C17)."""

from __future__ import annotations

import ast

from typing import Any, Dict, List, Tuple

from ..interp import Config, Interp, _Raise
from ..report import Ctx
from ..values import (ALL_KINDS, ANY_VALUE_KINDS, SBool, SDict, SFunc, SList, SNew, SObj, SOpaque, SStr, Sym, Unmodelled, short)

CORE = "htmltools._core"
HOOK = "sys.displayhook"


def _hook_events(leaf: Any, s: SObj) -> List[Tuple[str, Any]]:
    """Ordered events of a path that matter for the hook protocol."""
    ev: List[Tuple[str, Any]] = []
    for e in leaf.effects:
        if e.kind == "global_store" and e.target == HOOK:
            ev.append(("install", e))
        elif e.kind == "global_store":
            ev.append(("other-global", e))
        elif e.kind == "store_attr" and e.target is s:
            ev.append(("field:" + str(e.key), e))
        elif e.kind == "call" and isinstance(e.target, (SObj, SOpaque)):
            ev.append(("call", e))
        elif e.kind == "call" and not (isinstance(e.target, SFunc)):
            ev.append(("foreign-call", e))
    return ev


def _forwards_to_append(I: Interp, h: Any, s: Any, cfg: Config) -> bool:
    """h is a local one-argument function that does nothing but hand its argument to the tag's own append."""
    if not isinstance(h, SFunc) or h.closure is None:
        return False
    a = h.node.args
    if len(a.posonlyargs + a.args) != 1 or a.vararg or a.kwarg or a.kwonlyargs:
        return False

    def body(run: Any) -> Tuple[Any, ...]:
        x = SObj("value", ANY_VALUE_KINDS)
        run.__dict__["x"] = x
        try:
            return ("return", run.ev.call_function(h, [x], {}))
        except _Raise as r:
            return ("raise", r.exc)

    try:
        leaves = I.explore(body, cfg)
    except Unmodelled:
        return False
    for l in leaves:
        calls = [e for e in l.effects if e.kind == "call"]
        if l.kind != "return" or l.value is not None or len(calls) != 1:
            return False
        e = calls[0]
        t = e.target
        if not (isinstance(t, SFunc) and t.qual == "Tag.append" and (e.key is s or t.self_obj is s)):
            return False
        if not (e.value and len(e.value) == 1 and e.value[0] is l.run.__dict__["x"]) or (e.extra or {}).get("kwargs"):
            return False
        if any(x.kind in ("store_attr", "store_item", "mutcall", "global_store") for x in l.effects):
            return False
    return bool(leaves)


def enter_obligations(ctx: Ctx, I: Interp) -> str:
    prog = ctx.prog
    where = f"{CORE}:Tag.__enter__"
    fn = prog.function(CORE, "Tag.__enter__")
    field = None

    def mk(run: Any):
        s = SObj("self", {"TAG"})
        run.__dict__["s"] = s
        return ({fn.args.args[0].arg: s}, s)

    cfg = Config()
    cfg.opaque = {"Tag.append", "TagList.append"}
    n_ok = n_raise = 0
    for l in I.run_function(CORE, "Tag.__enter__", mk, cfg):
        s = l.run.__dict__["s"]
        ev = _hook_events(l, s)
        fuids = {getattr(v_, "uid", None) for v_ in s.attrs.values()}
        truthy = [a for a, _ in l.atoms if isinstance(a, tuple) and a[0] in ("truthy-kind", "truthy", "nonempty", "nonzero") and a[1] in fuids]
        ctx.check(not truthy, "C17.enter", "an active block is recognised by `<saved hook> is not None`", where, f"guard atoms {[a for a, _ in l.atoms]}",
                  "Tag.__enter__ decides whether the tag is already active by the truth value of the saved hook: a hook object that is falsy "
                  "(a callable with __bool__/__len__, e.g. an empty recorder) is not recognised, so re-entering the active tag overwrites the saved hook",
                  witness="sys.displayhook = EmptyListRecorder(); with t: with t: ...")
        if l.kind == "raise":
            n_raise += 1
            bad = [k for k, _ in ev if k == "install" or k.startswith("field:") or k == "other-global"]
            ctx.check(not bad and isinstance(l.value, SNew) and l.value.cls_name == "RuntimeError", "C17.enter",
                      "re-entering an active tag raises before anything is written", where, f"raise after {[k for k, _ in ev]}",
                      f"entering a tag whose block is still active raises only after {bad}: the saved hook / the hook chain is already overwritten",
                      witness="with a: with b: try: with a: ... -> at a's exit sys.displayhook is left on b's hook")
            continue
        n_ok += 1
        kinds = [k for k, _ in ev]
        inst = [i for i, k in enumerate(kinds) if k == "install"]
        saves = [i for i, k in enumerate(kinds) if k.startswith("field:")]
        ctx.require(len(inst) == 1, f"Tag.__enter__ installs the hook {len(inst)} times on a normal path")
        ok_save = len(saves) == 1 and saves[0] < inst[0]
        saved = ev[saves[0]][1] if saves else None
        cell_ok = saved is not None and isinstance(saved.value, SObj) and saved.value.name == HOOK and saved.value.origin == "global"
        ctx.check(ok_save and cell_ok, "C17.enter", "the current sys.displayhook is saved in the tag before the new hook is installed", where,
                  f"events {kinds}, saved {short(saved.value) if saved is not None else None}",
                  "Tag.__enter__ does not save the hook that was installed when the block is entered (before replacing it)")
        if saves:
            field = str(ev[saves[0]][0]).split(":", 1)[1]
        v = ev[inst[0]][1].value
        hw = isinstance(v, SFunc) and v.qual.endswith("handler_wrapper") and v.closure is not None
        h = v.closure.env.get("handler") if hw else None
        ok_h = isinstance(h, SFunc) and ((h.qual == "Tag.append" and h.self_obj is s) or _forwards_to_append(I, h, s, cfg))
        ctx.check(hw and ok_h, "C17.enter", "the installed hook is wrap_displayhook_handler(self.append)", where, f"installs {short(v)} around {short(h)}",
                  f"the hook installed for the block is {short(v)} around {short(h)}: displayed values are not appended to this tag under the child rules")
        # the re-entry guard must have tested the saved field as None
    ctx.min_count("Tag.__enter__ normal paths", n_ok, 1)
    ctx.check(n_raise >= 1, "C17.enter", "entering an active tag raises", where, "no raising path", "Tag.__enter__ never refuses re-entry of an active tag",
              witness="with a: with a: pass")
    ctx.require(field is not None, "Tag.__enter__: saved-hook field not identified")
    return field


def exit_obligations(ctx: Ctx, I: Interp, field: str) -> None:
    prog = ctx.prog
    where = f"{CORE}:Tag.__exit__"
    fn = prog.function(CORE, "Tag.__exit__")
    ps = [a.arg for a in fn.args.args]
    ctx.require(len(ps) == 4, "Tag.__exit__ signature changed")

    def mk(run: Any):
        s = SObj("self", {"TAG"})
        saved = SObj("saved_hook", {"CALLABLE"})
        saved.meta["truth_unknown"] = True      # whatever was installed when the block was entered: possibly a falsy callable object
        s.attrs[field] = saved
        run.__dict__["s"] = (s, saved)
        b = {ps[0]: s}
        for p in ps[1:]:
            b[p] = SObj(p, {"NONE", "OTHER"})
        return (b, s)

    n = 0
    for l in I.run_function(CORE, "Tag.__exit__", mk, Config()):
        s, saved = l.run.__dict__["s"]
        n += 1
        cond = [lbl for a, lbl in l.atoms]
        cs = f" (path: {', '.join(map(str, cond))})" if cond else ""
        ctx.check(l.kind == "return", "C17.exit", "__exit__ does not raise by itself", where, f"{l.kind}{cs}", f"Tag.__exit__ raises {short(l.value)}{cs}")
        falsy_ret = l.value is None or l.value is False or (isinstance(l.value, (int, str)) and not l.value)
        ctx.check(not (l.kind == "return" and not falsy_ret), "C17.exit", "__exit__ does not swallow exceptions (it returns None/False)", where, f"returns {short(l.value)}{cs}",
                  f"Tag.__exit__ returns {short(l.value)}: whenever that value is true (the enclosing hook may return anything - an outer tag's hook that returns "
                  f"the tag, a recorder that returns its list) an exception raised inside the block is suppressed",
                  witness="with outer: with inner: raise ValueError()   # must propagate")
        ev = _hook_events(l, s)
        kinds = [k for k, _ in ev]
        inst = [i for i, k in enumerate(kinds) if k == "install"]
        calls = [i for i, k in enumerate(kinds) if k in ("call", "foreign-call")]
        restored = len(inst) >= 1 and ev[inst[0]][1].value is saved and all(ev[i][1].value is saved for i in inst)
        ctx.check(restored, "C17.exit", "sys.displayhook is restored to the saved hook on every path", where,
                  f"events {kinds}{cs}", f"on some exit path sys.displayhook is not restored to the hook saved at entry{cs}: the process-global "
                  f"hook chain stays corrupted", witness="with div(): raise ValueError()  -> sys.displayhook afterwards")
        handoff = [i for i in calls if ev[i][1].target is saved and ev[i][1].value and ev[i][1].value[0] is s and len(ev[i][1].value) == 1]
        ctx.check(len(handoff) == 1 and len(calls) == 1, "C17.exit", "the tag is handed exactly once to the restored hook", where,
                  f"calls {[short(ev[i][1].target) for i in calls]}{cs}",
                  f"the tag is handed to the enclosing hook {len(handoff)} time(s){cs} (exactly once is required, with or without an exception)",
                  witness="with outer: with inner: raise X  -> inner must still reach outer")
        if inst and calls:
            ctx.check(inst[0] < calls[0], "C17.exit", "the hook is restored before any foreign code is called", where, f"events {kinds}{cs}",
                      "the enclosing hook is called before sys.displayhook has been restored: if it raises, the hook stays replaced")
        clears = [i for i, (k, e_) in enumerate(ev) if k == "field:" + field and e_.value is None]
        has_try = any(isinstance(n_, ast.Try) for n_ in ast.walk(fn))
        if calls and not has_try:
            ctx.check(bool(clears) and clears[0] < calls[0], "C17.exit", "the tag is marked as exited before any foreign code is called", where,
                      f"events {kinds}{cs}",
                      f"the saved hook is cleared only after the tag has been handed to the enclosing hook{cs}: if that hook raises, the tag stays marked as "
                      f"active and can never be entered again", witness="with outer_that_raises_on_display: with t: pass;  then `with t:` again")
    ctx.min_count("Tag.__exit__ paths", n, 1)


def wrapper_table(ctx: Ctx, I: Interp, rule: str = "C17.wrap", only: Any = None) -> None:
    prog = ctx.prog
    where = f"{CORE}:wrap_displayhook_handler"
    fn = prog.function(CORE, "wrap_displayhook_handler")
    mod = prog.core()

    def body(run: Any) -> Tuple[Any, ...]:
        h = SObj("handler", {"CALLABLE"})
        v = SObj("value", ANY_VALUE_KINDS)
        run.__dict__["o"] = (h, v)
        f = SFunc(mod, fn, None, None, None, "wrap_displayhook_handler")
        try:
            w = run.ev.call_function(f, [h], {})
            if not isinstance(w, SFunc):
                raise Unmodelled("wrap_displayhook_handler does not return a function")
            return ("return", run.ev.call_function(w, [v], {}))
        except _Raise as r:
            return ("raise", r.exc)

    cfg = Config()
    cfg.opaque = {"JSXTag._repr_html_", "Tag._repr_html_", "TagList._repr_html_", "JSXTag.__str__", "Tag.__str__", "TagList.__str__"}
    seen: Dict[str, str] = {}
    for l in I.explore(body, cfg):
        h, v = l.run.__dict__["o"]
        calls = [e for e in l.effects if e.kind == "call" and e.target is h]
        plain = {k for k in v.kinds if k in ("STR", "INT", "FLOAT", "BYTES") and (only is None or k in only)}
        if plain and l.kind != "raise" and len(calls) == 1 and calls[0].value and calls[0].value[0] is v:
            # a plain value handed on as it is: the _repr_html_ test must have come out negative on this path, not be skipped by an
            # earlier positive test of the builtin type (a str/int subclass may carry _repr_html_)
            mine = [(a, val) for a, val in l.atoms if isinstance(a, tuple) and len(a) >= 3 and a[0] == "isinstance" and a[1] == v.uid]
            repr_tested = any("ReprHtml" in str(a[2]).split("|") for a, _ in mine) or \
                any(isinstance(a, tuple) and a[0] == "hasattr" and "_repr_html_" in str(a[-1]) for a, _ in l.atoms)
            fast = [a for a, val in mine if (val is True or val == 0 or str(val).startswith("isinstance")) and not str(val).startswith("not ")
                    and set(str(a[2]).split("|")) <= {"str", "int", "float", "bytes"}]
            ctx.check(repr_tested or not fast, rule, "a plain value is only handed on unwrapped after the _repr_html_ test came out negative", where,
                      f"{'|'.join(sorted(plain))}: accepted by isinstance {[a[2] for a in fast]} before any _repr_html_ test",
                      f"a displayed value that is an instance of {[a[2] for a in fast]} is handed on as it is before it has been tested for _repr_html_: an object of a "
                      f"str/number subclass that renders itself (markup text classes) is stored live instead of being kept as HTML(value._repr_html_())",
                      witness="class M(str):\n    def _repr_html_(self): return '<b>x</b>'\nwith div() as d: M('x')")
        for k in sorted(v.kinds):
            if only is not None and k not in only:
                seen.setdefault(k, "-")
                continue
            if k in ("TAG", "TAGLIST", "TAGIFIABLE_ONLY", "TAGIFIABLE_REPR", "JSXTAG"):
                want = "value"
            elif k in ("REPR_ONLY", "HTMLSTR"):
                want = "html"
            elif k in ("NONE", "ELLIPSIS"):
                want = "nothing"
            else:
                want = "value"
            if l.kind == "raise":
                got = "raise"
            elif not calls:
                got = "nothing"
            elif len(calls) == 1 and calls[0].value and calls[0].value[0] is v:
                got = "value"
            elif len(calls) == 1 and calls[0].value and isinstance(calls[0].value[0], SNew) and calls[0].value[0].cls_name == "HTML":
                d = calls[0].value[0].attrs.get("data")
                okd = isinstance(d, SStr) and len(d.frags) == 1 and d.frags[0].kind in ("OF", "OP") and (d.frags[0].kind == "OP" or d.frags[0].a[0] == v.uid)
                got = "html" if okd else f"html({short(d)})"
            else:
                got = f"{len(calls)} calls"
            seen[k] = got
            if k in ("REPR_ONLY", "TAGIFIABLE_ONLY", "TAGIFIABLE_REPR", "TAG", "TAGLIST", "JSXTAG") and calls:
                first_call = l.effects.index(calls[0])
                eqs = [e for e in l.effects[:first_call] if e.kind == "eqcmp" and e.target is v]
                ctx.check(not eqs, rule, f"a displayed {k} object is dispatched by its type, without comparing it with == first", where,
                          f"{k}: compared with {[short(x) for x in (eqs[0].value if eqs else [])]} before the hand-over",
                          f"a displayed object of kind {k} is compared by equality (`in (None, ...)` / `==`) before it is handed on: an object whose __eq__ is "
                          f"element-wise, raises or is permissive (data frames, arrays, proxies) is dropped or makes the display fail instead of being kept",
                          witness="with div(): df   # an object with _repr_html_ whose == returns an array")
            ctx.check(got == want, rule, f"displayed {k} value -> {want}", where, f"{k} -> {got}",
                      f"a displayed value of kind {k} is handled as `{got}`; the rule is `{want}` (tags/tagifiables appended as is, _repr_html_ "
                      f"objects kept as HTML, None and Ellipsis ignored, everything else passed to the child rules)",
                      witness="with div(): ...   # Ellipsis must be ignored" if k == "ELLIPSIS" else None)
    ctx.require({"TAG", "NONE", "ELLIPSIS", "REPR_ONLY", "STR"} <= set(seen), "wrap_displayhook_handler: dispatch table incomplete")


def field_writers(ctx: Ctx, I: Interp, field: str) -> None:
    """Who may write the saved-hook field: only __enter__/__exit__ (and the constructor) write it on an existing tag.  Any
    other method that assigns `<receiver>.<field>` breaks "the hook is restored on exit" / "re-entry raises" for a tag
    whose block is active."""
    import ast as _ast
    from ..frontend import iter_functions
    prog = ctx.prog
    allowed = {"Tag.__enter__", "Tag.__exit__", "Tag.__init__"}
    n = 0
    for mod in prog.modules.values():
        if not mod.name.startswith("htmltools"):
            continue
        for qual, fn in iter_functions(mod):
            stores = [t for st in _ast.walk(fn) if isinstance(st, (_ast.Assign, _ast.AugAssign, _ast.AnnAssign))
                      for t in (st.targets if isinstance(st, _ast.Assign) else [st.target])
                      if isinstance(t, _ast.Attribute) and t.attr == field]
            dels = [t for st in _ast.walk(fn) if isinstance(st, _ast.Delete) for t in st.targets if isinstance(t, _ast.Attribute) and t.attr == field]
            # ... or through the instance dictionary: self.__dict__["field"] = ..., d = self.__dict__; d["field"] = ...
            via_dict = [t for st in _ast.walk(fn) if isinstance(st, (_ast.Assign, _ast.AugAssign, _ast.Delete))
                        for t in (st.targets if isinstance(st, (_ast.Assign, _ast.Delete)) else [st.target])
                        if isinstance(t, _ast.Subscript) and isinstance(t.slice, _ast.Constant) and t.slice.value == field]
            if via_dict and qual not in allowed and fn.args.args and qual.startswith("Tag."):
                n += 1
                cfgd = Config()
                cfgd.opaque_all = True

                def mkd(run: Any, fn: Any = fn):
                    s_ = SObj("self", {"TAG"})
                    run.__dict__["s"] = s_
                    return ({fn.args.args[0].arg: s_}, s_)

                badd = False
                try:
                    for l in I.run_function(mod.name, qual, mkd, cfgd):
                        s_ = l.run.__dict__["s"]
                        for e in l.effects:
                            if e.kind in ("store_item", "del_item") and e.key == field and isinstance(e.target, SDict) and e.target.__dict__.get("fields_of") is s_:
                                badd = True
                except Unmodelled:
                    badd = True
                ctx.check(not badd, "C17.field", f"{qual} does not write the saved-hook field of an existing tag", f"{mod.name}:{qual}",
                          f"{qual}: <instance dict of the receiver>[{field!r}] = ...",
                          f"{qual} writes `{field}` into the instance dictionary of the tag it is called on: if that tag's `with` block is active its saved hook is "
                          f"lost - __exit__ then installs the wrong hook (or None) and a re-entry is no longer detected",
                          witness="with t: copy(t)  # or str(t) / t.tagify(); leaving the block sets sys.displayhook = None")
            if not stores and not dels:
                continue
            n += 1
            if qual in allowed and mod.name == CORE:
                continue
            if not fn.args.args:
                continue
            recv = fn.args.args[0].arg
            on_self = [t for t in stores + dels if isinstance(t.value, _ast.Name) and t.value.id == recv]
            # the receiver name must still denote the parameter (not re-bound to a copy) at the store: decided by Engine A
            if on_self and qual.startswith("Tag."):
                cfg = Config()
                cfg.opaque_all = True

                def mk(run: Any, fn: Any = fn):
                    s_ = SObj("self", {"TAG"})
                    run.__dict__["s"] = s_
                    return ({fn.args.args[0].arg: s_}, s_)

                bad = False
                try:
                    for l in I.run_function(mod.name, qual, mk, cfg):
                        s_ = l.run.__dict__["s"]
                        if any(e.kind in ("store_attr", "del_attr") and e.target is s_ and e.key == field for e in l.effects):
                            bad = True
                except Unmodelled:
                    bad = True
                ctx.check(not bad, "C17.field", f"{qual} does not write the saved-hook field of an existing tag", f"{mod.name}:{qual}",
                          f"{qual}: {recv}.{field} = ...",
                          f"{qual} assigns `{recv}.{field}` on the tag it is called on: if that tag's `with` block is active its saved hook is lost - "
                          f"__exit__ then installs the wrong hook (or None) and a re-entry is no longer detected",
                          witness="with t: copy(t)  # or str(t) / t.tagify(); leaving the block sets sys.displayhook = None")
            else:
                ctx.ok("C17.field", f"{qual} writes the field only on an object it created")
    ctx.min_count(f"functions that write .{field}", n, 2)


def check(ctx: Ctx) -> None:
    ctx.explanation = (
        "Engine A effect traces of Tag.__enter__, Tag.__exit__ and the closure returned by wrap_displayhook_handler. "
        "__enter__: on the path where the tag is already active, RuntimeError is raised before any field or global is written; "
        "otherwise the current sys.displayhook is saved in the tag before the new hook wrap_displayhook_handler(self.append) is "
        "installed. __exit__: on every path (whatever exc_type is) sys.displayhook is set back to the saved hook before any "
        "foreign code runs, the tag is handed exactly once to that hook, and True is never returned. The wrapper's dispatch "
        "table over all value kinds: tags/tagifiables -> handler(value), _repr_html_ objects -> handler(HTML(...)), "
        "None/Ellipsis -> nothing, other -> handler(value) (type-checked by C14). Arbitrary nestings follow by induction on depth.")
    ctx.trust("Python with-statement protocol (__exit__ runs on every exit of the block)", "Engine A abstract semantics")
    I = Interp(ctx.prog)
    field = enter_obligations(ctx, I)
    exit_obligations(ctx, I, field)
    field_writers(ctx, I, field)
    wrapper_table(ctx, I)
    # what the hook passes on is appended with Tag.append: the child normaliser's dispatch table decides what is accepted,
    # converted or rejected with TypeError (rules C14.table / C14.flatten / C14.accept, shared with C14)
    from .c14 import _delegates, normaliser_tables
    normaliser_tables(ctx)
    _delegates(ctx, I, "append")
