"""C06 - block layout follows the documented line and indentation rules (DESIGN 4, C05-C07)."""

from __future__ import annotations

from ..layout import META_KINDS
from ..layout import at_indent_zero, indent_is_zero
from ..rendercheck import (TG, TL, describe, fmt, frames, model, preconditions, proj_layout, spec_for, walk,
                           _state_text)
from ..report import Ctx


def check(ctx: Ctx) -> None:
    ctx.explanation = (
        "Engine A extracts, from the current source, the sibling transducer of TagList.get_html_string (one path summary "
        "per child kind x loop-carried state) and the element frame of Tag.get_html_string (one summary per scenario). "
        "A product walk over all reachable (implementation state, specification state) pairs x child classes compares the "
        "emitted layout tokens (EOL, INDENT, how a tag child is rendered, next state) with the specification renderer "
        "written from the property text; every frame scenario is compared with the specification frame. Equality on all "
        "reachable pairs plus the frames gives the layout of every validly nested tree by induction. Decides the "
        "token structure of the output, not the final string bytes.")
    ctx.trust("CPython string concatenation and str * int", "Engine A abstract semantics (sa/interp.py, sa/eval_*.py)")
    ctx.assume("trees in which an inline tag contains a block tag are outside C06 (no layout promised)")
    m = model(ctx)
    preconditions(ctx, m)
    # str()/render() lay out the tagified copy: the copy must carry the whitespace flag of the original
    from ..interp import Interp
    from .c08 import tag_tagify_shape
    tag_tagify_shape(ctx, Interp(ctx.prog), rule="C06.tagify", fields={"add_ws"})
    # defaults of the public signatures
    d_tl, d_tag = m.defaults["taglist"], m.defaults["tag"]
    ctx.check(d_tl.get("indent") == 0 and d_tl.get("eol") == "\n" and d_tl.get("add_ws") is True and d_tl.get("_escape_strings") is True,
              "C06.defaults", "TagList.get_html_string defaults are indent=0, eol='\\n', add_ws=True, _escape_strings=True",
              TL, f"defaults {d_tl}", "a top-level list no longer lays out by the documented rule by default")
    ctx.check(d_tag.get("indent") == 0 and d_tag.get("eol") == "\n", "C06.defaults",
              "Tag.get_html_string defaults are indent=0, eol='\\n'", TG, f"defaults {d_tag}",
              "default indent/eol of Tag.get_html_string changed")
    n = 0
    for step in walk(m, block_in_inline=False):
        n += 1
        spec, ch = step["spec"], step["child"]
        what = describe(step)
        if not step["rows"]:
            ctx.require(False, f"no path of the sibling loop covers: {what} [{_state_text(step)}]")
        for r in step["rows"]:
            if spec["outcome"] == "raise":
                continue  # C09's business
            if r.outcome == "raise":
                if ch.kind in META_KINDS:
                    continue
                ctx.fail("C06.table", TL, what, f"rendering raises {r.exc} where the documented rule emits {fmt(spec['tokens'])}")
                continue
            got = proj_layout(r.tokens)
            want = proj_layout(spec["tokens"])
            if r.indent_zero:
                got, want = at_indent_zero(got), at_indent_zero(want)    # this path only exists for indent == 0
            ctx.check(got == want, "C06.table", what, TL, what,
                      f"layout differs from the documented rule: emits {fmt(r.tokens)}; rule says {fmt(spec['tokens'])}",
                      witness=f"state {_state_text(step)}")
    ctx.count("transducer steps compared", n)
    nf = 0
    for sc, hits in frames(m):
        ctx.require(bool(hits), f"no path of Tag.get_html_string covers frame scenario {sc!r}")
        want = proj_layout(spec_for(m, sc))
        for leaf, toks, free in hits:
            nf += 1
            got_f, want_f = proj_layout(toks), want
            if indent_is_zero(leaf.atoms):
                got_f, want_f = at_indent_zero(got_f), at_indent_zero(want_f)
            ctx.check(got_f == want_f, "C06.frame", f"frame {sc!r}", TG, f"frame: {sc!r}",
                      f"element frame differs from the documented rule: emits {fmt(toks)}; rule says {fmt(spec_for(m, sc))}"
                      + (f" (under extra condition {free[0][0]})" if free else ""))
    ctx.count("frame scenario x path comparisons", nf)


def thorough(ctx: Ctx) -> None:
    """Model composition: extracted frame + transducer vs composed specification over abstract trees."""
    from ..compose import Composer, enumerate_trees
    m = model(ctx)
    comp = Composer(m)
    n = bad = 0
    for kind, t in enumerate_trees(3, c06_only=True):
        for indent, eol_on in ((0, True), (2, True), (0, False)):
            n += 1
            if kind == "tag":
                a = comp.render_tag(t, indent, eol_on, True)
                b = comp.render_tag(t, indent, eol_on, False)
            else:
                a = comp.render_list(t[1], indent, eol_on, True, True, True)
                b = comp.render_list(t[1], indent, eol_on, True, True, False)
            if a != b:
                bad += 1
                if bad <= 3:
                    ctx.fail("C06.compose", TL if kind == "list" else TG, f"composed rendering of {t!r} at indent={indent} eol={'on' if eol_on else 'empty'}",
                             f"the composed model renders {a} where the documented rule gives {b}")
    ctx.count("composed trees compared", n)
    if not bad:
        ctx.ok("C06.compose", f"{n} composed (tree, indent, eol) cases equal the composed specification (sibling sequences up to length 3, one nesting level)")
