"""C01 - rendered markup parses back to the same element tree (DESIGN 4, C01)."""

from __future__ import annotations

from typing import Any

from ..layout import META_KINDS, canon, strip_names
from ..rendercheck import (TG, TL, VOID16, describe, fmt, frames, model, preconditions, proj_struct, spec_for, walk)
from ..report import Ctx
from ..tables import check_escape_function
from ..values import SObj

CORE = "htmltools._core"


def attr_loop_obligations(ctx: Ctx, m: Any, pid: str, want_value: bool) -> None:
    """The attribute writer: one ` key="value"` per item of self.attrs.items(), in dict order."""
    rows = [a for a in m.attr_rows]
    ctx.min_count("attribute writer paths", len(rows), 1)
    for a in rows:
        d = getattr(a["iter_value"], "iter_descr", None)
        direct = d is not None and d[0] == "items" and isinstance(d[1], SObj) and d[1].name == "self.attrs"
        if not ctx.check(direct, f"{pid}.attrs", "attribute loop iterates self.attrs.items() directly (insertion order)", TG,
                         f"for ... in {a['iter']}", f"attributes are written in the order of `{a['iter']}`, not in insertion order",
                         witness="div(b='1', a='2') must render b before a"):
            continue
        ctx.require(a["outcome"] in ("fall", "continue"), f"attribute loop body leaves the loop: {a['outcome']}")
        accs = [c for c in a["carried"] if isinstance(a["env"].get(c), object) and canon(a["env"].get(c))[:1] == [("ACC", c)]]
        if "tokens" in a:
            toks = strip_names(a["tokens"])
        elif len(accs) == 1:
            toks = strip_names(canon(a["env"][accs[0]])[1:])
        else:
            # parts.append(<piece>) into a list that is joined after the loop
            from ..values import SList
            apps = [e for e in a["leaf"].effects[a.get("start", 0):] if e.kind == "mutcall" and e.key == "append" and isinstance(e.target, SList)
                    and e.target.mode == "carried"]
            ctx.require(len(apps) == 1 and apps[0].value, f"attribute loop has neither a string accumulator nor a single parts.append ({a['carried']})")
            toks = strip_names(canon(apps[0].value[0]))
        val_tokens = [t for t in toks if t[0] == "TEXT" and t[1] != "PLAIN" or (t[0] == "TEXT" and t[2])]
        shape = [t if t[0] == "LIT" else (t[0],) for t in toks]
        ok = shape == [("LIT", " "), ("TEXT",), ("LIT", '="'), ("TEXT",), ("LIT", '"')]
        ctx.check(ok, f"{pid}.attrs", "each attribute is written as ` key=\"value\"`", TG, f"attribute writer emits {fmt(toks)}",
                  f"the attribute writer emits {fmt(toks)} instead of ' ' key '=\"' value '\"'")
        if ok and want_value:
            leaf = a["leaf"]
            key_t, val_t = toks[1], toks[3]
            ctx.check(key_t[1:3] == ("PLAIN", ()), f"{pid}.attrs", "attribute name written as stored", TG,
                      f"attribute name emitted as {fmt([key_t])}", "the attribute name is transformed when written")
            html_val = any(str(lbl) == "isinstance HTML" for _, lbl in leaf.atoms)
            if "var" in a:
                vv = a["var"].items[1] if hasattr(a["var"], "items") and len(a["var"].items) == 2 else None
                html_val = vv is not None and vv.kinds <= {"HTMLSTR"}
            want = ("TRUSTED", ()) if html_val else ("PLAIN", ("attr",))
            ctx.check(val_t[1:3] == want, f"{pid}.attrs",
                      f"{'HTML()' if html_val else 'plain'} attribute value emitted {'verbatim' if html_val else 'attribute-escaped exactly once'}",
                      TG, f"{'HTML' if html_val else 'plain'} attribute value emitted as {fmt([val_t])}",
                      f"a{'n HTML()' if html_val else ' plain'} attribute value is emitted as {fmt([val_t])}; expected "
                      f"{'verbatim' if html_val else 'escaped once in attribute mode'}",
                      witness="div(title='a\"b<c')" if not html_val else "div(title=HTML('a&amp;b'))")
            for e in leaf.effects:
                if e.kind == "global_read":
                    ctx.fail(f"{pid}.pure", TG, f"reads module state {e.target}",
                             f"the attribute writer reads module-level mutable state `{e.target}`: output depends on history")


def escape_calls_at_defaults(ctx: Ctx, m: Any, pid: str) -> None:
    """The escape function is decided for its two documented modes; every call of it on the rendering paths leaves any further
    parameter at its default (an option such as `ascii_only=True` selects a mapping that was not examined)."""
    leaves = [(TL, r.leaf) for r in m.sib_rows] + [(TG, l) for l in m.frame_leaves] + [(TG, a["leaf"]) for a in m.attr_rows]
    n = 0
    bad = set()
    for where, l in leaves:
        for e in getattr(l, "effects", []):
            if e.kind != "escape":
                continue
            n += 1
            if "+" in str(e.key) and (where, str(e.key)) not in bad:
                bad.add((where, str(e.key)))
                ctx.fail(f"{pid}.E5", where, f"html_escape(..., {str(e.key).split('+', 1)[1]})",
                         f"text is escaped by html_escape with a non-default option ({str(e.key).split('+', 1)[1]}): the characters it writes are not the "
                         f"mapping of the {str(e.key).split('+')[0]} mode that decodes back to the stored text", line=getattr(e.node, "lineno", None))
    if not bad:
        ctx.ok(f"{pid}.E5", "every html_escape call on the rendering paths uses only the text/attribute switch", calls=n)


def check(ctx: Ctx) -> None:
    ctx.explanation = (
        "Over the element frame and sibling transducer extracted by Engine A: every non-raising path of "
        "Tag.get_html_string matches the grammar INDENT? '<' NAME ATTR* ('/>' | '>' BODY '</' NAME '>') with the same NAME "
        "at both ends, '/>' iff no visible child and the name is void, exactly one rendering of the children in BODY; the "
        "sibling loop iterates the children forward and emits exactly one rendering token per non-metadata child; the "
        "attribute loop iterates the attribute dict directly and writes ' key=\"value\"' per item; the folded void set equals "
        "the 16 names of the property; both escape modes map their keys to references that decode back. By induction "
        "the output is in a balanced grammar whose parse is the tree. Tokenizer behaviour is an axiom.")
    ctx.trust("WHATWG tokenizer facts (DESIGN 3.9)", "Engine A abstract semantics")
    ctx.assume("tag and attribute names are syntactically valid (precondition of the property)")
    m = model(ctx)
    preconditions(ctx, m)
    # .6 the void set
    ctx.check(m.void == VOID16, "C01.void", "_VOID_TAG_NAMES equals the 16 void names", f"{CORE}:_VOID_TAG_NAMES",
              f"void set differs: missing {sorted(VOID16 - m.void)} extra {sorted(m.void - VOID16)}",
              f"_VOID_TAG_NAMES differs from the HTML void elements: missing {sorted(VOID16 - m.void)}, extra {sorted(m.void - VOID16)}",
              witness=f"Tag({(sorted(VOID16 - m.void) or sorted(m.void - VOID16) or ['br'])[0]!r})")
    sites = ctx.prog.global_mutation_sites(CORE, "_VOID_TAG_NAMES")
    ctx.check(not sites, "C01.void", "_VOID_TAG_NAMES is never mutated", f"{CORE}:_VOID_TAG_NAMES",
              sites[0]["text"] if sites else "", "the void set is modified at run time")
    # text of ordinary elements must be escaped: the only raw-text elements are script and style
    from ..rendercheck import NOESC2
    extra = sorted(set(m.noesc) - set(NOESC2))
    ctx.check(not extra, "C01.text", "text is written unescaped only inside script/style", f"{CORE}:_NO_ESCAPE_TAG_NAMES", f"no-escape set {sorted(m.noesc)}",
              f"text leaves of <{extra[0] if extra else ''}> are written without escaping: markup metacharacters in them do not decode to the original text "
              f"(and '<' opens a tag for elements whose content is parsed)", witness=f"Tag({extra[0] if extra else 'title'!r}, 'a &lt; b <i>')")
    from .c15 import name_idempotence
    name_idempotence(ctx, "C01.attrs")
    # numeric leaves are stored as their str() text (a number that is dropped or stored otherwise is missing from its text run)
    from .c02 import numbers_as_text
    numbers_as_text(ctx, "C01")
    # render()/str() work on a copy whose attributes were re-inserted one by one through __setitem__: nothing may get lost there
    from .c03 import setitem_obligations
    setitem_obligations(ctx, "C01")
    # .1-.3 frames
    nf = 0
    for sc, hits in frames(m):
        ctx.require(bool(hits), f"no path of Tag.get_html_string covers frame scenario {sc!r}")
        want = proj_struct(spec_for(m, sc))
        for leaf, toks, free in hits:
            nf += 1
            ctx.check(proj_struct(toks) == want, "C01.frame", f"frame {sc!r}", TG, f"frame: {sc!r}",
                      f"element markup is {fmt(toks)}; the grammar requires {fmt(spec_for(m, sc))} (whitespace aside)"
                      + (f" (under extra condition {free[0][0]})" if free else ""),
                      witness=f"Tag({sc.name if sc.name != '<other>' else 'div'!r}, ...) with {sc!r}")
    ctx.count("frame paths compared", nf)
    # .4 sibling loop: forward over self, one rendering token per visible child
    ctx.check(m.sib_iter_ok, "C01.order", "the sibling loop iterates `self` forward", TL, f"for child in {m.sib_iter_text}",
              f"children are rendered in the order of `{m.sib_iter_text}`, not document order", witness="div('a', 'b')")
    n = 0
    for step in walk(m, block_in_inline=True):
        ch = step["child"]
        if ch.kind in META_KINDS or step["spec"]["outcome"] == "raise":
            continue
        what = describe(step)
        want = proj_struct(step["spec"]["tokens"])
        for r in step["rows"]:
            if r.outcome == "raise" or not r.acc_ok:
                continue
            n += 1
            elem_names = {t[-1] for t in r.tokens if t[0] in ("TEXT", "TAG")}
            ctx.check(proj_struct(r.tokens) == want and elem_names <= {r.element.name}, "C01.child", what, TL, what,
                      f"a child is rendered as {fmt(r.tokens)}; exactly one rendering of the child itself is required")
    ctx.count("sibling steps compared", n)
    # .5 attributes
    attr_loop_obligations(ctx, m, "C01", want_value=True)
    # values and text decode: escape function in both modes
    check_escape_function(ctx, ["text", "attr"], "C01")
    escape_calls_at_defaults(ctx, m, "C01")
