"""C02 - plain-text children are inert data (DESIGN 4, C02)."""

from __future__ import annotations

from typing import Any

from .. import childnorm
from ..layout import META_KINDS
from ..rendercheck import (TG, TL, describe, fmt, frames, model, proj_text, strip_names, walk)
from ..report import Ctx
from ..tables import ESC, check_escape_function, check_escape_tables
from ..values import SNew, SObj, SStr, short

CORE = "htmltools._core"


def emission_obligations(ctx: Ctx, m: Any, pid: str) -> None:
    """Escape typestate of every emission site of a child's text (shared by C02 and C04)."""
    n_plain = 0
    # whether text is escaped must not depend on module-level state that something assigns at run time
    seen_g = set()
    for where_, leaf_ in [(TL, r_.leaf) for r_ in m.sib_rows] + [(TG, l_) for l_ in m.frame_leaves]:
        for e_ in leaf_.effects:
            if e_.kind in ("global_read", "global_store") and (where_, str(e_.target), e_.kind) not in seen_g:
                seen_g.add((where_, str(e_.target), e_.kind))
                ctx.fail(f"{pid}.pure", where_, f"{e_.kind.replace('_', ' ')} {e_.target}",
                         f"rendering {'reads' if e_.kind == 'global_read' else 'assigns'} the module-level variable `{e_.target}`, which is re-assigned at run time: "
                         f"whether a string is escaped depends on what was rendered before (or on an exception that left the variable set)",
                         witness="an exception while a <script> with several children is rendered, then any other render")
    for step in walk(m, block_in_inline=True):
        ch, p = step["child"], step["params"]
        if ch.kind in META_KINDS or step["spec"]["outcome"] == "raise":
            continue
        what = describe(step)
        want = [t for t in proj_text(step["spec"]["tokens"])]
        for r in step["rows"]:
            if r.outcome == "raise":
                continue
            if not r.acc_ok:
                esc = any(t[0] == "OP" and "escaped" in str(t[1]) for t in r.tokens) or "ACC" in str(r.tokens)
                ctx.fail(f"{pid}.emit", TL, what + " [accumulated output]",
                         f"the output accumulated so far is passed through another operation when this child is added "
                         f"({fmt(r.tokens)}): already-rendered markup is {'escaped again' if esc else 'rewritten'}")
                continue
            got = proj_text(r.tokens)
            plain = ch.kind in ("STR", "JSXEXPR")
            mine = (pid == "C02" and plain and p["_escape_strings"]) or (pid == "C04" and (not plain or not p["_escape_strings"]))
            if not mine:
                continue
            n_plain += 1
            ctx.check(got == want, f"{pid}.emit", what, TL, what,
                      f"a {ch.kind} child is emitted as {fmt(r.tokens)}; expected content token {fmt(step['spec']['tokens'])}",
                      witness=_witness(ch.kind, p["_escape_strings"]))
        # purity of the emission path
    for r in m.sib_rows:
        for e in r.leaf.effects:
            if e.kind == "global_read":
                ctx.fail(f"{pid}.pure", TL, f"reads module state {e.target}",
                         f"text emission reads module-level mutable state `{e.target}` (modified in "
                         f"{e.value[0]['where'] if e.value else '?'}): what is emitted depends on what was rendered before")
    from ..rendercheck import spec_for
    for sc, hits in frames(m):
        ctx.require(bool(hits), f"no path of Tag.get_html_string covers frame scenario {sc!r}")
        want = proj_text(spec_for(m, sc))
        plain = sc.single_kind in ("STR", "JSXEXPR")
        from ..rendercheck import NOESC2
        noesc = sc.name in NOESC2
        for leaf, toks, free in hits:
            for e in leaf.effects:
                if e.kind == "global_read":
                    ctx.fail(f"{pid}.pure", TG, f"reads module state {e.target}",
                             f"text emission reads module-level mutable state `{e.target}`: output depends on history")
            if pid == "C02":
                mine = (sc.n_vis == 1 and plain and not noesc) or (sc.n_vis >= 1 and not noesc and not (sc.n_vis == 1 and sc.single_kind in ("STR", "JSXEXPR", "HTMLSTR")))
            else:
                mine = (sc.n_vis == 1 and (sc.single_kind == "HTMLSTR" or (plain and noesc))) or (sc.n_vis >= 1 and noesc)
            if not mine:
                continue
            n_plain += 1
            ctx.check(proj_text(toks) == want, f"{pid}.emit", f"frame {sc!r}", TG, f"frame: {sc!r}",
                      f"child text of this element is emitted as {fmt(toks)}; expected {fmt(spec_for(m, sc))}"
                      + (f" (under extra condition {free[0][0]})" if free else ""),
                      witness=_witness(sc.single_kind or "STR", not noesc))
    ctx.min_count(f"{pid} emission sites", n_plain, 3)


def _witness(kind: str, escape: bool) -> str:
    if kind in ("STR", "JSXEXPR"):
        return "div('<a&b>', span())" if escape else "tags.script('a<b', 'c')"
    if kind == "HTMLSTR":
        return "div(HTML('<a&b>'), span())"
    return "div(obj_with__repr_html_, span())"


def numbers_as_text(ctx: Ctx, pid: str) -> None:
    t = childnorm.tagchilds_table(ctx.prog)
    where = f"{CORE}:_tagchilds_to_tagnodes"
    seen = set()
    for r in t["rows"]:
        for k in r.kinds & {"INT", "FLOAT"}:
            seen.add(k)
            if r.outcome != "convert":
                ctx.fail(f"{pid}.num", where, f"{k} item stored as {short(r.value)}" if r.outcome == "other" else f"{k} item",
                         f"a {k} child is not stored as the plain string str(item) (outcome: {r.outcome} {r.action} {short(r.value) if r.value is not None else ''}): "
                         f"it would not be escaped like other text", witness="class P(float): __str__ = lambda s: '<0.001'; div(P(0.0005))")
                continue
            v = r.value
            item = r.__dict__["item"]
            ok = isinstance(v, SStr) and len(v.frags) == 1 and v.frags[0].kind == "OF" and v.frags[0].a[0] == item.uid \
                and v.frags[0].b == "NUM" and not v.frags[0].c
            ctx.check(ok, f"{pid}.num", f"{k} item is stored as the plain string str(item)", where, f"{k} item stored as {short(v)}",
                      f"a {k} child is stored as {short(v)} instead of the plain string str(item): it would not be escaped "
                      f"like other text", witness="class P(float): __str__ = lambda s: '<0.001'; div(P(0.0005))")
    ctx.require(seen == {"INT", "FLOAT"}, "_tagchilds_to_tagnodes: no path for INT/FLOAT items")


def check(ctx: Ctx) -> None:
    ctx.explanation = (
        "(1) Escape typestate: in the model Engine A extracts from Tag/TagList.get_html_string, every path that emits a "
        "plain-str child (fast path, sibling loop, first/later sibling, any layout state) emits it text-escaped exactly "
        "once, and no path reads module-level mutable state. (2) html_escape itself is interpreted abstractly in text mode: "
        "its fast path returns the input unchanged only when an unanchored re.search of a pattern covering every key "
        "fails, and its slow path is a chain of unlimited single-character replacements whose composition maps each of "
        "& < > to one character reference that decodes back and leaves other characters decodable. (3) numbers are "
        "stored as plain str(item); the exported html_escape is that function. Decides the structural clause "
        "(which function is applied on which path, and the character map of that function), not runtime strings.")
    ctx.trust("str.replace replaces all non-overlapping occurrences left to right", "re.search semantics", "html.unescape",
              "Engine A abstract semantics")
    ctx.assume("user-defined __str__/_repr_html_/tagify are pure")
    m = model(ctx)
    emission_obligations(ctx, m, "C02")
    check_escape_function(ctx, ["text"], "C02", strict_other=True)
    check_escape_tables(ctx, "C02", attr=False)
    numbers_as_text(ctx, "C02")
    # "added later by append/extend/insert", "nested in lists": whatever way a child is added, what is stored went through the
    # normaliser (a raw number / nested list in the storage is never emitted as escaped text)
    from ..interp import Interp
    from ..report import SharedCtx
    from .c14 import operation_obligations
    operation_obligations(SharedCtx(ctx, lambda r: "C02.stores" if r in ("C14.taint", "C14.stores") else None), Interp(ctx.prog))
    # ... including text and numbers displayed inside a `with tag:` block
    from .c17 import wrapper_table
    wrapper_table(ctx, Interp(ctx.prog), rule="C02.hook", only={"STR", "INT", "FLOAT"})
    # exported name
    init = ctx.prog.module("htmltools")
    k, v = ctx.prog.resolve(init, "html_escape")
    ok = k == "func" and v[0].name == "htmltools._util" and v[1] is ctx.prog.util().functions.get("html_escape")
    ctx.check(ok, "C02.export", "htmltools.html_escape resolves to htmltools._util.html_escape", "htmltools:<module>",
              "export html_escape", "the exported html_escape is a different function")
    core = ctx.prog.core()
    k, v = ctx.prog.resolve(core, "html_escape")
    ok = k == "func" and v[1] is ctx.prog.util().functions.get("html_escape")
    ctx.check(ok, "C02.export", "_core's html_escape resolves to htmltools._util.html_escape", f"{CORE}:<module>",
              "import html_escape", "the renderer uses a different html_escape")
