"""C19 - every tag function creates its own element with the documented default.

Engine E, exhaustive over the generated modules (DESIGN section 4, C19)."""

from __future__ import annotations

import ast
from typing import Any, Dict, List, Optional, Tuple

from ..frontend import AnalysisError, Module, body_without_docstring, norm
from ..report import Ctx

EXPECTED = {"htmltools.tags": 113, "htmltools.svg": 66}


def _forward_summary(prog, mod: Module, fn: ast.FunctionDef) -> Tuple[Optional[Dict[str, Any]], str]:
    """Summarise a straight-line wrapper body into the single constructor call it returns.

    Returns (summary, '') or (None, reason).  Accepted shapes: zero or more simple
    local assignments `x = <const or name>` followed by `return <Call>`; the locals are
    substituted (constant propagation)."""
    env: Dict[str, ast.expr] = {}
    body = body_without_docstring(fn)
    if not body:
        return None, "empty body"
    for st in body[:-1]:
        if isinstance(st, ast.Assign) and len(st.targets) == 1 and isinstance(st.targets[0], ast.Name) \
                and isinstance(st.value, (ast.Constant, ast.Name)):
            env[st.targets[0].id] = st.value
        elif isinstance(st, ast.Expr) and isinstance(st.value, ast.Constant):
            continue
        elif isinstance(st, ast.Pass):
            continue
        else:
            return None, f"statement not modelled: {norm(st)}"
    last = body[-1]
    if not isinstance(last, ast.Return) or not isinstance(last.value, ast.Call):
        return None, f"last statement is not `return <call>`: {norm(last)}"
    call = last.value

    def subst(e: ast.expr) -> ast.expr:
        seen = 0
        while isinstance(e, ast.Name) and e.id in env and seen < 5:
            e = env[e.id]
            seen += 1
        return e

    callee = subst(call.func)
    pos: List[ast.expr] = []
    star: List[str] = []
    for a in call.args:
        if isinstance(a, ast.Starred):
            v = subst(a.value)
            star.append(v.id if isinstance(v, ast.Name) else norm(v))
        else:
            pos.append(subst(a))
    kws: Dict[str, ast.expr] = {}
    dstar: List[str] = []
    for k in call.keywords:
        if k.arg is None:
            v = subst(k.value)
            dstar.append(v.id if isinstance(v, ast.Name) else norm(v))
        else:
            kws[k.arg] = subst(k.value)
    return {"callee": callee, "pos": pos, "star": star, "kws": kws, "dstar": dstar, "call": call}, ""


def check(ctx: Ctx) -> None:
    from ..interp import Config, Interp
    from ..values import SDict, SNew, SObj, SSplat, short

    prog = ctx.prog
    ctx.explanation = (
        "Exhaustive check of every public tag function in htmltools/tags.py and htmltools/svg.py: the signature is "
        "(*args, _add_ws=<bool>, **kwargs) with the default folded from the source and compared with the generator's "
        "inline/block table (folded from scripts/generate_tags.py); each function is interpreted by Engine A on symbolic "
        "arguments and must return exactly Tag(<its own name>, *args, _add_ws=_add_ws, **kwargs) (directly or through "
        "helpers); no top-level statement rebinds a function; the 17 top-level re-exports resolve to the same functions; "
        "Tag.__init__ rejects every non-bool _add_ws before storing it. Decides the structural clause, not runtime equality "
        "of the returned objects.")
    ctx.trust("Python call semantics for *args/**kwargs forwarding", "Engine A abstract semantics")
    inline = prog.fold_name("scripts.generate_tags", "_INLINE_TAG_NAMES")
    ctx.require(isinstance(inline, (set, frozenset)) and len(inline) >= 1 and all(isinstance(x, str) for x in inline),
                "_INLINE_TAG_NAMES is not a folded set of names")
    ctx.count("inline_table_size", len(inline))
    core = prog.core()
    tag_cls = core.classes.get("Tag")
    ctx.require(tag_cls is not None, "anchor vanished: htmltools._core:Tag")
    I = Interp(prog)
    total = 0
    for modname, expected in EXPECTED.items():
        m = prog.module(modname)
        fnames = set(m.functions)
        for st in m.tree.body:
            if isinstance(st, ast.FunctionDef):
                continue
            if isinstance(st, ast.Expr) and isinstance(st.value, ast.Constant):
                continue
            if isinstance(st, (ast.ImportFrom, ast.Import)):
                for a in st.names:
                    nm = a.asname or a.name
                    if nm in fnames:
                        ctx.fail("C19.4", f"{modname}:<module>", norm(st), f"import rebinds tag function name `{nm}`", line=st.lineno)
                continue
            if isinstance(st, (ast.Assign, ast.AnnAssign)):
                tg = st.targets if isinstance(st, ast.Assign) else [st.target]
                tnames = [t.id for t in tg if isinstance(t, ast.Name)]
                hit = [t for t in tnames if t in fnames]
                if hit:
                    ctx.fail("C19.4", f"{modname}:<module>", norm(st), f"top-level assignment rebinds tag function(s) {hit}", line=st.lineno)
                    continue
                if len(tnames) == len(tg):
                    continue        # a module constant (never a function name)
            raise AnalysisError(f"{modname}: unexpected top-level statement: {norm(st)}")
        for nm, cnt in m.func_def_counts.items():
            if cnt > 1:
                ctx.fail("C19.4", f"{modname}:{nm}", f"def {nm} (x{cnt})", f"function `{nm}` is defined {cnt} times; the last definition wins")
        k, v = prog.resolve(m, "Tag")
        ctx.require(k == "class" and v is tag_cls, f"{modname}: name `Tag` does not resolve to htmltools._core.Tag")
        ctx.ok("C19.4", f"{modname}: no top-level statement rebinds a tag function; Tag resolves to _core.Tag")
        n = 0
        for name, fn in m.functions.items():
            if name.startswith("_"):
                continue          # private helper, reached through the public functions
            n += 1
            where = f"{modname}:{name}"
            a = fn.args
            if fn.decorator_list:
                raise AnalysisError(f"{where}: decorated tag function is not modelled")
            sig_ok = (not a.posonlyargs and not a.args and a.vararg is not None and a.kwarg is not None
                      and [x.arg for x in a.kwonlyargs] == ["_add_ws"])
            if not sig_ok:
                raise AnalysisError(f"{where}: unexpected signature {ast.unparse(a)}")
            dn = a.kw_defaults[0]
            try:
                dflt = prog.fold(dn, m) if dn is not None else None
            except Exception:
                dflt = "<unfoldable>"
            if not isinstance(dflt, bool):
                ctx.fail("C19.1", where, f"_add_ws default {ast.unparse(dn) if dn else '<none>'}", "default of _add_ws does not fold to a bool constant", line=fn.lineno)
                continue
            want = name not in inline
            ctx.check(dflt is want, "C19.5", f"{where}: default _add_ws == ({name!r} not in _INLINE_TAG_NAMES) == {want}", where, f"_add_ws default {dflt}",
                      f"<{name}> is classified {'inline' if not want else 'block'} by scripts/generate_tags.py but the function defaults to _add_ws={dflt}",
                      witness=f"{modname.split('.')[-1]}.{name}().add_ws", line=fn.lineno)

            def mk(run, a=a):
                args = SObj("args", {"TUPLE"})
                w = SObj("_add_ws", {"TRUE", "FALSE"})
                kw = SDict(name="kwargs", concrete=False)
                run.__dict__["o"] = (args, w, kw)
                return ({a.vararg.arg: args, "_add_ws": w, a.kwarg.arg: kw}, None)

            leaves = I.run_function(modname, name, mk, Config())
            if len(leaves) != 1 or leaves[0].kind != "return":
                ctx.fail("C19.2", where, f"{len(leaves)} paths / {leaves[0].kind if leaves else '-'}", "the tag function does not simply return one element", line=fn.lineno)
                continue
            l = leaves[0]
            args, w, kw = l.run.__dict__["o"]
            v = l.value
            if not (isinstance(v, SNew) and v.cls is tag_cls):
                ctx.fail("C19.2", where, f"returns {short(v)}", "the tag function does not return a Tag(...) construction", line=fn.lineno)
                continue
            news = [e for e in l.effects if e.kind == "new" and isinstance(e.target, SNew) and e.target.cls is tag_cls]
            ctx.check(len(news) == 1, "C19.2", f"{where}: constructs exactly one Tag", where, f"{len(news)} Tag constructions", "more than one element is constructed")
            nm_ok = len(v.args) == 1 and v.args[0] == name
            ctx.check(nm_ok, "C19.2", f"{where}: element name constant equals function name", where, f"Tag({', '.join(short(x) for x in v.args)}, ...)",
                      f"function `{name}` creates a <{v.args[0] if v.args else '?'}> element", witness=f"{modname.split('.')[-1]}.{name}().name", line=fn.lineno)
            ctx.check(len(v.star) == 1 and v.star[0] is args, "C19.3", f"{where}: *args forwarded exactly once", where, f"star {[short(x) for x in v.star]}",
                      "positional arguments (children / attribute dicts) are not forwarded unchanged", line=fn.lineno)
            ctx.check(len(v.dstar) == 1 and v.dstar[0] is kw, "C19.3", f"{where}: **kwargs forwarded exactly once", where, f"dstar {[short(x) for x in v.dstar]}",
                      "keyword attributes are not forwarded unchanged", line=fn.lineno)
            ctx.check(set(v.kwargs) == {"_add_ws"} and v.kwargs.get("_add_ws") is w, "C19.3", f"{where}: _add_ws forwarded as given", where,
                      f"keywords { {k_: short(x) for k_, x in v.kwargs.items()} }",
                      "an explicit _add_ws is not honoured (not forwarded as `_add_ws=_add_ws`) or extra keywords are injected", line=fn.lineno)
        ctx.count(f"generated_functions[{modname}]", n)
        if n < expected:
            raise AnalysisError(f"{modname}: {n} tag functions found, the property enumerates {expected}")
        total += n

    init = prog.module("htmltools")
    tags = prog.module("htmltools.tags")
    try:
        listed = prog.fold_name("htmltools.tags", "__all__")
    except AnalysisError:
        listed = ()
    exports = prog.fold_name("htmltools", "__all__")
    ctx.require(isinstance(exports, (tuple, list)) and isinstance(listed, (tuple, list)), "htmltools.__all__ / htmltools.tags.__all__ do not fold to name sequences")
    dynamic = "__getattr__" in init.functions or any(isinstance(n, ast.Call) and isinstance(n.func, ast.Name) and n.func.id in ("globals", "vars", "setattr")
                                                     for n in ast.walk(init.tree))
    # the shortcuts: every exported top-level name that is also the name of a generated function of htmltools.tags (the
    # sub-module `svg` is exported under the name of the <svg> function and is not a shortcut), plus tags.__all__
    shortcuts = [n for n in exports if n in tags.functions] + [n for n in listed if n not in exports]
    nre = 0
    for nm in shortcuts:
        where = "htmltools:<module>"
        k, v = prog.resolve(init, nm)
        if k in ("module", "extern_module") and nm not in listed:
            continue
        if k == "unknown":
            if nm in exports and not dynamic:
                ctx.fail("C19.6", where, f"re-export {nm}", f"`{nm}` is listed in htmltools.__all__ and names a generated tag function, but no top-level "
                         f"statement of htmltools/__init__.py binds it: `from htmltools import {nm}` raises", witness=f"from htmltools import {nm}")
                continue
            raise AnalysisError(f"top-level shortcut `{nm}` is no longer re-exported from htmltools/__init__.py")
        nre += 1
        good = k == "func" and v[0] is tags and v[1] is tags.functions.get(nm)
        got = f"{v[0].name}.{v[1].name}" if k == "func" else f"{k}"
        ctx.check(good, "C19.6", f"htmltools.{nm} resolves to htmltools.tags.{nm}", where, f"re-export {nm}",
                  f"top-level `{nm}` resolves to {got}, not htmltools.tags.{nm}", witness=f"htmltools.{nm}().name")
    if nre < 17 and not any(f.rule == "C19.6" for f in ctx.findings):
        raise AnalysisError(f"only {nre} top-level shortcuts found; the property enumerates 17")
    ctx.count("re_exports", nre)
    _check_init_guard(ctx)
    ctx.count("generated_functions_total", total)


def _check_init_guard(ctx: Ctx) -> None:
    """Engine A: Tag.__init__ over every kind of `_add_ws` value - a non-bool raises TypeError before any field is
    stored; a bool is stored unchanged; the name is stored unchanged."""
    from ..interp import Config, Interp
    from ..values import ANY_VALUE_KINDS, SDict, SNew, SObj

    prog = ctx.prog
    fn = prog.function("htmltools._core", "Tag.__init__")
    where = "htmltools._core:Tag.__init__"
    a = fn.args
    ctx.require("_add_ws" in [x.arg for x in a.kwonlyargs] and a.vararg is not None and a.kwarg is not None and len(a.args) == 2,
                "Tag.__init__ signature is no longer (self, _name, *args, _add_ws=..., **kwargs)")
    I = Interp(prog)

    def mk(run):
        s = SNew(prog.get_class("Tag"))
        w = SObj("_add_ws", ANY_VALUE_KINDS)
        nm = SObj("_name", {"STR"})
        run.__dict__["objs"] = (s, w, nm)
        return ({a.args[0].arg: s, a.args[1].arg: nm, a.vararg.arg: (), "_add_ws": w, a.kwarg.arg: SDict()}, s)

    n_bad = n_ok = 0
    for l in I.run_function("htmltools._core", "Tag.__init__", mk, Config()):
        s, w, nm = l.run.__dict__["objs"]
        is_bool = w.kinds <= {"TRUE", "FALSE"}
        stores = [e for e in l.effects if e.kind == "store_attr" and e.target is s]
        kinds = "|".join(sorted(w.kinds)) if len(w.kinds) <= 3 else f"{len(w.kinds)} non-bool kinds"
        extra = [x for x in l.atoms if isinstance(x[0], tuple) and x[0][0] in ("num-eq", "eq", "cmp", "in")]
        cond = f" (when {extra[0][0][0]} holds for the value)" if extra else ""
        if not is_bool:
            n_bad += 1
            rejected = l.kind == "raise" and isinstance(l.value, SNew) and l.value.cls_name == "TypeError"
            ctx.check(rejected and not [e for e in stores if e.key == "add_ws"], "C19.7",
                      f"_add_ws of kind {kinds} is rejected with TypeError before self.add_ws is stored", where,
                      f"_add_ws kind {kinds}: {l.kind}{cond}",
                      f"a non-bool `_add_ws` ({kinds}) is {'accepted' if l.kind != 'raise' else 'rejected with ' + str(getattr(l.value, 'cls_name', '?'))}{cond}",
                      witness="Tag('div', _add_ws=1)")
        else:
            n_ok += 1
            st = [e for e in stores if e.key == "add_ws"]
            ctx.check(l.kind == "return" and len(st) == 1 and st[0].value is w, "C19.7",
                      f"a bool _add_ws ({kinds}) is stored unchanged", where, f"_add_ws kind {kinds}: {l.kind}",
                      f"an explicit bool `_add_ws` is not honoured: {l.kind}, stores {[short_(e.value) for e in st]}",
                      witness="Tag('span', _add_ws=True).add_ws")
            sn = [e for e in stores if e.key == "name"]
            ctx.check(len(sn) == 1 and sn[0].value is nm, "C19.7", "the element name is stored unchanged", where,
                      f"self.name = {[short_(e.value) for e in sn]}", "the element name is transformed before being stored")
    ctx.min_count("Tag.__init__ non-bool paths", n_bad, 1)
    ctx.min_count("Tag.__init__ bool paths", n_ok, 1)


def short_(v):
    from ..values import short
    return short(v)
