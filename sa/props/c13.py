"""C13 - serialised dependencies round-trip through HTML text (DESIGN 4, C13)."""

from __future__ import annotations

import ast
import itertools
import json
import re
from typing import Any, Dict, List, Optional, Tuple

from .. import attrmodel
from ..interp import Config, Interp
from ..report import Ctx
from ..strmodel import eval_atom, eval_sstr
from ..tables import RegexFacts, sre_c, sre_parse
from ..values import (ALL_KINDS, Frag, SBool, SDict, SFunc, SInt, SList, SNew, SObj, SOpaque, SSplat, SStr, Sym, Unmodelled, short)
from .c11 import LISTING, listing_tokens, hoist_listing_shapes

CORE = "htmltools._core"
UTIL = "htmltools._util"
SER = f"{CORE}:HTMLDependency.serialize_to_script_json"
EXT = f"{CORE}:HTMLTextDocument._static_extract_serialized_html_deps"

# the finite language fixed by the property: every letter-case spelling of '</script' ...
VARIANTS = ["</" + "".join(c) for c in itertools.product(*[(ch.lower(), ch.upper()) for ch in "script"])]
# ... followed by what the HTML tokenizer accepts after an end-tag name (or the end of the string)
FOLLOW = [">", " ", "/", "\t", "\n", "\x0c", ""]


def _chain(v: Any) -> Tuple[Optional[List[Tuple[Any, ...]]], Any]:
    """Unwind value -> ([sanitiser steps applied outermost-last], innermost value)."""
    steps: List[Tuple[Any, ...]] = []
    cur = v
    while isinstance(cur, SStr) and len(cur.frags) == 1 and cur.frags[0].kind == "OP":
        f = cur.frags[0]
        if isinstance(f.a, tuple) and f.a and f.a[0] == "str.replace":
            steps.append(("replace",) + tuple(f.a[1:]))
            cur = f.b
            continue
        if isinstance(f.a, tuple) and f.a[:2] == ("call", "re.sub"):
            p = f.b
            args, kw = p.get("args", []), p.get("kwargs", {})
            if len(args) >= 3 and isinstance(args[0], str) and isinstance(args[1], str):
                fl = kw.get("flags", args[4] if len(args) > 4 else 0)
                steps.append(("resub", args[0], args[1], fl if isinstance(fl, int) else 0, kw.get("count", args[3] if len(args) > 3 else 0)))
                cur = args[2]
                continue
            return None, cur
        break
    return list(reversed(steps)), cur


def _apply(steps: List[Tuple[Any, ...]], w: str) -> str:
    for st in steps:
        if st[0] == "replace":
            w = w.replace(*st[1:])
        else:
            w = re.sub(st[1], st[2], w, count=st[4] or 0, flags=st[3])
    return w


def neutraliser(ctx: Ctx, I: Interp) -> Any:
    prog = ctx.prog
    fn = prog.function(CORE, "HTMLDependency.serialize_to_script_json")
    cfg = Config()
    cfg.opaque_all = True
    cfg.coarse_counts = True

    def mk(run: Any):
        s = SObj("self", {"HTMLDEP"})
        run.__dict__["s"] = s
        b = {fn.args.args[0].arg: s}
        for a in fn.args.args[1:]:
            b[a.arg] = SObj(a.arg, {"INT", "NONE"})
        return (b, s)

    tag = None
    for l in I.run_function(CORE, "HTMLDependency.serialize_to_script_json", mk, cfg):
        ctx.require(l.kind == "return", "serialize_to_script_json raises")
        v = l.value
        ctx.require(isinstance(v, SNew) and v.cls_name == "Tag" and len(v.args) == 2 and v.args[0] == "script", f"serialize_to_script_json returns {short(v)}")
        tag = v
        steps, inner = _chain(v.args[1])
        ctx.require(steps is not None, "serialize_to_script_json: sanitiser chain not understood")
        dumps = inner.frags[0].b if isinstance(inner, SStr) and len(inner.frags) == 1 and inner.frags[0].kind == "OP" and inner.frags[0].a == ("call", "json.dumps") else None
        ctx.require(dumps is not None, f"serialize_to_script_json: the script text is not sanitised json.dumps(...) ({short(inner)})")
        for st in steps:
            if st[0] == "replace" and len(st) > 3:
                ctx.fail("C13.neutral", SER, f"replace{st[1:]}", "the neutralising replace is limited by a count: later occurrences stay")
        bad: List[str] = []
        for w in VARIANTS:
            for fo in FOLLOW:
                word = "x" + w + fo + "y"
                out = _apply(steps, word)
                if re.search(r"</script", out, re.I):
                    bad.append(w + fo)
                try:
                    back = json.loads('"' + out.replace("\n", "\\n").replace("\t", "\\t").replace("\x0c", "\\f") + '"')
                except Exception:
                    back = None
                if back != word:
                    ctx.fail("C13.neutral", SER, f"sanitiser chain {steps}", f"after neutralisation the JSON text no longer decodes to the original string ({word!r} -> {out!r})")
        ctx.check(not bad, "C13.neutral", f"the sanitiser destroys all {len(VARIANTS)} letter-case spellings of '</script' before every terminator ({len(VARIANTS) * len(FOLLOW)} words)",
                  SER, f"sanitiser chain {steps}",
                  f"the text of the serialised <script> can still contain an end-tag-like sequence: {bad[:4]} ({len(bad)} of {len(VARIANTS) * len(FOLLOW)} spellings) survive "
                  f"`{steps}`, so a dependency field containing it closes the element early",
                  witness=f"HTMLDependency(name='a{bad[0] if bad else ''}b', version='1').serialize_to_script_json()")
        # .2 writer/reader key agreement
        d = dumps["args"][0] if dumps["args"] else None
        ctx.require(isinstance(d, SDict) and d.concrete, "serialize_to_script_json: serialised object is not a dict literal")
        init = prog.function(CORE, "HTMLDependency.__init__")
        params = [a.arg for a in init.args.args[1:] + init.args.kwonlyargs]
        keys = [k for k in d.items]
        ctx.check(sorted(keys) == sorted(params), "C13.keys", "serialised keys == parameters of HTMLDependency.__init__ (the reader calls HTMLDependency(**json))", SER,
                  f"keys {keys} vs parameters {params}",
                  f"the serialised dict has keys {sorted(set(keys) - set(params))} the constructor does not accept / lacks {sorted(set(params) - set(keys))}: "
                  f"HTMLTextDocument cannot rebuild an equal dependency", witness="HTMLTextDocument(str(dep.serialize_to_script_json()))")
        s = l.run.__dict__["s"]
        hv = d.items.get("head")
        if hv is not None:
            fr = hv.frags[0] if isinstance(hv, SStr) and len(hv.frags) == 1 and hv.frags[0].kind == "OP" and isinstance(hv.frags[0].a, tuple) and hv.frags[0].a[0] == "call" else None
            q = fr.a[1] if fr is not None else ""
            rc = fr.b.get("recv") if fr is not None and isinstance(fr.b, dict) else None

            def _is_head(x: Any) -> bool:
                if isinstance(x, SObj) and (x.meta.get("attr_of") or (None, None))[0] is s and x.meta["attr_of"][1] == "head":
                    return True
                return isinstance(x, SNew) and x.cls_name == "TagList" and len(x.args) == 1 and not x.star and _is_head(x.args[0])
            if q.split(".")[-1] in ("__str__", "_repr_html_", "__repr__", "_render_tag_or_taglist") and _is_head(rc):
                ctx.fail("C13.keys", SER, f"head: {q}", f"the head markup is taken with {q}: under html_dependency_render_mode == 'json' (the mode in which serialised dependencies "
                         f"are written) str() appends the serialised form of every dependency inside the head, so the recovered head is not the identical markup",
                         witness="HTMLDependency('a', '1', head=TagList(tags.title('t'), HTMLDependency('b', '1'))) serialised in json mode")
            else:
                ctx.require(q.split(".")[-1] == "get_html_string" and _is_head(rc) and not fr.b.get("args") and not fr.b.get("kwargs"),
                            f"serialize_to_script_json: head markup is {short(hv)}")
                ctx.ok("C13.keys", "field `head` is serialised as the plain markup of self.head (get_html_string, no dependency appendix)")
        for k, val in d.items.items():
            if k in ("version", "head"):
                continue
            ao = val.meta.get("attr_of") if isinstance(val, SObj) else None
            if isinstance(val, SBool) and isinstance(val.atom, tuple) and val.atom[0] == "attr":
                ao = (s if val.atom[1] == s.uid else None, val.atom[2])
            ctx.check(ao is not None and ao[0] is s and ao[1] == k, "C13.keys", f"field `{k}` is serialised from self.{k}", SER, f"{k}: {short(val)}", f"key `{k}` does not carry self.{k}")
    return tag


def open_tag_text(ctx: Ctx, tag: SNew) -> str:
    """The open tag the renderer writes for the constant Tag('script', ..., type=..., data_html_dependency=True)."""
    info = attrmodel.normalize_name_pipeline(ctx.prog)
    out = "<" + str(tag.args[0])
    for k, v in tag.kwargs.items():
        name = None
        for p in info["paths"]:
            leaf = p["leaf"]
            arg = leaf.run.__dict__["arg"]
            b = {arg.uid: k}
            if all(eval_atom(leaf.run.atom_info[a], b) == bool(val) for a, val in p["conds"] if a in leaf.run.atom_info):
                name = eval_sstr(p["value"], b)
        ctx.require(name is not None, "attribute name pipeline not evaluable")
        if v is True:
            val = ""
        elif isinstance(v, str):
            ctx.require(not re.search("[&<>\"'\r\n]", v), "constant attribute value needs escaping")
            val = v
        else:
            ctx.require(False, f"constant attribute {k}={v!r} not modelled")
        out += f' {name}="{val}"'
    return out + ">"


def extraction(ctx: Ctx, I: Interp, tag: SNew) -> None:
    prog = ctx.prog
    fn = prog.function(CORE, "HTMLTextDocument._static_extract_serialized_html_deps")
    p0 = fn.args.args[0].arg
    cfg = Config()
    cfg.opaque_all = True
    cfg.stop_at_loop = ("HTMLTextDocument._static_extract_serialized_html_deps", 0)

    def mk(run: Any):
        h = SObj(p0, {"STR"})
        run.__dict__["h"] = h
        return ({p0: h}, None)

    pats = set()
    n = 0
    for l in I.run_function(CORE, "HTMLTextDocument._static_extract_serialized_html_deps", mk, cfg):
        rec = getattr(l.run, "stop_loop_record", None)
        if rec is None:
            continue
        n += 1
        h = l.run.__dict__["h"]
        fa = [e for e in l.effects if e.kind == "extcall" and str(e.target) == "re.findall"]
        su = [e for e in l.effects if e.kind == "extcall" and str(e.target) == "re.sub"]
        ctx.require(len(fa) == 1 and len(su) == 1, "extraction does not use one re.findall and one re.sub")
        pf, ps = fa[0].value[0], su[0].value[0]
        ctx.check(isinstance(pf, str) and pf == ps and fa[0].value[1] is h and su[0].value[2] is h and su[0].value[1] == "", "C13.extract",
                  "the same pattern finds and removes the serialised scripts from the same text", EXT, f"findall {short(pf)} / sub {short(ps)}",
                  "the pattern used to find serialised dependencies differs from the one used to remove them (or the removal inserts text)")
        if isinstance(pf, str):
            ff, fs = _re_flags(fa[0], 2), _re_flags(su[0], 4)
            ctx.check(ff == fs and ff is not None, "C13.extract", "findall and sub use the same regex flags", EXT, f"flags {ff} / {fs}",
                      "the pattern is applied with different flags for finding and for removing")
            pats.add((pf, ff or 0))
        # de-duplication: against the set of all earlier serialisations, append order kept
        el = rec.__dict__.get("element")
        start = rec.__dict__.get("body_effect_start", 0)
        eff = l.effects[start:]
        mem = [(a, v) for a, v in l.atoms if isinstance(a, tuple) and a[0] == "in" and (l.run.atom_info.get(a) or {}).get("item") is el]
        eqs = [(a, v) for a, v in l.atoms if isinstance(a, tuple) and a[0] == "eq"]
        def _is_findall_(o_: Any) -> bool:
            return isinstance(o_, SOpaque) and (o_.__dict__.get("extcall") or {}).get("q") == "re.findall"
        itv = rec.iter_value
        bc_ = (itv.meta.get("call") if isinstance(itv, SObj) else itv.__dict__.get("call") if isinstance(itv, SOpaque) else None) or {}
        by_fromkeys = _fromkeys_of(itv, _is_findall_) or (getattr(bc_.get("func"), "qual", "") == "unique" and len(bc_.get("args") or []) == 1
                                                           and _is_findall_(bc_["args"][0]) and _unique_is_fromkeys(ctx, I))
        if by_fromkeys and not mem:
            # for s in dict.fromkeys(found): deps.append(HTMLDependency(**json.loads(s)))  - distinct serialisations in order of first appearance
            apps = [e for e in eff if e.kind == "mutcall" and e.key == "append"]
            dep = apps[0].value[0] if len(apps) == 1 and apps[0].value else None
            okc = isinstance(dep, SNew) and dep.cls_name == "HTMLDependency" and len(dep.dstar) == 1 and not dep.args and not dep.kwargs
            src = dep.dstar[0] if okc else None
            okj = isinstance(src, SOpaque) and (src.__dict__.get("extcall") or {}).get("q") == "json.loads" and src.__dict__["extcall"]["args"][0] is el
            ctx.check(bool(okc and okj) and l.kind in ("fall", "continue"), "C13.dedup",
                      "every distinct serialisation (dict.fromkeys order) is rebuilt as HTMLDependency(**json.loads(text)) and appended", EXT,
                      f"loop over {short(itv)}: appends {[short(e.value[0]) for e in apps]} -> {l.kind}",
                      "a distinct serialisation is not (only) rebuilt with HTMLDependency(**json.loads(text)) and appended in order")
            continue
        if eqs and not mem:
            ctx.fail("C13.dedup", EXT, "duplicate test by equality with one remembered value",
                     "a serialisation is only compared with one remembered string (the previous one), not with all earlier ones: identical copies separated by another "
                     "dependency are reconstructed twice", witness="text with serialised a, b, a")
            continue
        if not mem:
            objmem = [(a, v) for a, v in l.atoms if isinstance(a, tuple) and a[0] == "in" and isinstance((l.run.atom_info.get(a) or {}).get("item"), SNew)
                      and (l.run.atom_info.get(a) or {}).get("item").cls_name == "HTMLDependency"]
            dci = ctx.prog.get_class("HTMLDependency", ctx.prog.modules[CORE])
            if objmem and dci is not None:
                has_eq = ctx.prog.find_method(dci, "__eq__") is not None
                ctx.fail("C13.dedup", EXT, "duplicate test by membership of the rebuilt object",
                         "the rebuilt HTMLDependency is looked up in the result list instead of its text among the texts seen: " +
                         ("two different serialisations of equal dependencies (for instance written with different indent) are merged into one, although each "
                          "distinct serialisation is to be recovered once" if has_eq else
                          "HTMLDependency defines no __eq__, so two objects rebuilt from the same text are never equal and every repeat is reconstructed again"),
                         witness="text with serialize_to_script_json(indent=None) and serialize_to_script_json(indent=2) of one dependency")
                continue
        ctx.require(len(mem) == 1, "extraction loop: no membership test of the serialisation in a seen-collection")
        cont = l.run.atom_info[mem[0][0]]["container"]
        adds = [e for e in eff if e.kind == "mutcall" and e.target is cont and e.key in ("add", "append")]
        apps = [e for e in eff if e.kind == "mutcall" and e.key == "append" and e.target is not cont]
        if mem[0][1]:
            ctx.check(l.kind == "continue" and not adds and not apps, "C13.dedup", "an already seen serialisation is skipped", EXT, f"seen: {l.kind}", "a repeated serialisation is not skipped")
        else:
            ok = len(adds) == 1 and adds[0].value and adds[0].value[0] is el and len(apps) == 1 and isinstance(apps[0].value[0], SNew) and apps[0].value[0].cls_name == "HTMLDependency"
            dep = apps[0].value[0] if apps else None
            okc = dep is not None and len(dep.dstar) == 1 and not dep.args and not dep.kwargs
            src = dep.dstar[0] if okc else None
            okj = isinstance(src, SOpaque) and (src.__dict__.get("extcall") or {}).get("q") == "json.loads" and src.__dict__["extcall"]["args"][0] is el
            ctx.check(bool(ok and okc and okj), "C13.dedup", "a new serialisation is remembered and rebuilt as HTMLDependency(**json.loads(text)), appended in order", EXT,
                      f"new: adds {len(adds)}, appends {[short(e.value[0]) for e in apps]}", "a new serialisation is not (only) rebuilt with HTMLDependency(**json.loads(text)) and appended")
            it = rec.iter_value
            ctx.check(isinstance(it, SOpaque) and (it.__dict__.get("extcall") or {}).get("q") == "re.findall", "C13.dedup", "dependencies are rebuilt in order of appearance (findall order)", EXT,
                      f"iterates {short(it)}", "the found serialisations are not processed in order of appearance")
    if n == 0:
        n = _dedup_by_fromkeys(ctx, I, mk, pats)
    ctx.min_count("extraction paths", n, 1)
    # .3 the pattern vs the rendered open tag
    want = open_tag_text(ctx, tag)
    for pat, pflags in pats:
        tree = sre_parse.parse(pat, pflags)
        lit = ""
        rest = list(tree)
        while rest and rest[0][0] == sre_c.LITERAL:
            lit += chr(rest[0][1])
            rest = rest[1:]
        ctx.check(lit == want, "C13.pattern", f"the extraction pattern starts with the literal open tag the renderer writes: {want}", EXT,
                  f"pattern prefix {lit!r}", f"the extraction pattern expects the open tag {lit!r} but serialised dependencies are rendered with {want!r}: nothing is extracted",
                  witness="HTMLTextDocument(str(div(dep)) in json mode).render()")
        okg = bool(rest) and rest[0][0] == sre_c.SUBPATTERN and len(rest[0][1][3]) == 1 and rest[0][1][3][0][0] == sre_c.MIN_REPEAT
        tail = "".join(chr(x[1]) for x in rest[1:] if x[0] == sre_c.LITERAL)
        ctx.check(okg and tail == "</script>" and len(rest[1:]) == len(tail), "C13.pattern", "the body group is lazy and the terminator is the literal </script>", EXT,
                  f"pattern tail {tail!r} lazy={okg}", "the pattern's body group is greedy or its terminator is not '</script>': one match swallows several serialised scripts")
        ctx.check(re.compile(pat, pflags).groups == 1, "C13.pattern", "the pattern has exactly one capturing group (the payload)", EXT, f"{re.compile(pat, pflags).groups} groups",
                  "the extraction pattern does not have exactly one capturing group: findall() / group(1) no longer yield the JSON payload")
        if okg:
            body = re.compile(pat, pflags)
            m = body.search(want + "a\nb\r\n</script>")
            ctx.check(m is not None and m.group(1) == "a\nb\r\n", "C13.pattern", "the body group matches across line breaks", EXT, "multi-line body", "a multi-line serialisation (indent=) is not extracted")


def _re_flags(e: Any, pos: int) -> Any:
    """The flags argument of an re.* call effect as an int (0 when absent), None when it is not a constant."""
    kw = e.extra if isinstance(e.extra, dict) else {}
    kw = kw.get("kwargs", kw) if isinstance(kw.get("kwargs", None), dict) else kw
    fl = kw.get("flags", e.value[pos] if e.value and len(e.value) > pos else 0)
    if isinstance(fl, bool):
        return None
    if isinstance(fl, int):
        return int(fl)
    nm = getattr(fl, "name", None) or getattr(fl, "qual", None)
    if isinstance(nm, str) and hasattr(re, nm.split(".")[-1]) and isinstance(getattr(re, nm.split(".")[-1]), int):
        return int(getattr(re, nm.split(".")[-1]))
    return None


def _fromkeys_of(base: Any, is_src: Any) -> bool:
    """base is dict.fromkeys(S) or list(dict.fromkeys(S)) with is_src(S)."""
    if isinstance(base, SOpaque) and isinstance(base.descr, tuple) and base.descr[:1] == ("dict.fromkeys",):
        src = base
    else:
        src = base.meta.get("copy_of") if isinstance(base, SObj) and base.meta.get("list_ctor") == "list" else \
            base.__dict__.get("of") if isinstance(base, SOpaque) else base
    return isinstance(src, SOpaque) and isinstance(src.descr, tuple) and src.descr[0] == "dict.fromkeys" and bool(is_src(src.__dict__.get("of")))


def _unique_is_fromkeys(ctx: Ctx, I: Interp) -> bool:
    """htmltools._util.unique(x) returns list(dict.fromkeys(x)) on its only path."""
    fn = ctx.prog.function(UTIL, "unique")
    if len(fn.args.args) != 1:
        return False
    box: Dict[str, Any] = {}

    def mk(run: Any):
        x = SObj("x", {"LIST"})
        box["x"] = x
        return ({fn.args.args[0].arg: x}, None)

    leaves = I.run_function(UTIL, "unique", mk, Config())
    return len(leaves) == 1 and leaves[0].kind == "return" and _fromkeys_of(leaves[0].value, lambda o_: o_ is box["x"])


def _dedup_by_fromkeys(ctx: Ctx, I: Interp, mk: Any, pats: set) -> int:
    """No loop: deps = [HTMLDependency(**json.loads(s)) for s in list(dict.fromkeys(findall(...)))] (order-preserving de-duplication)."""
    cfg = Config()
    cfg.opaque_all = True
    n = 0
    for l in I.run_function(CORE, "HTMLTextDocument._static_extract_serialized_html_deps", mk, cfg):
        if l.kind != "return":
            continue
        h = l.run.__dict__["h"]
        fa = [e for e in l.effects if e.kind == "extcall" and str(e.target) == "re.findall"]
        su = [e for e in l.effects if e.kind == "extcall" and str(e.target) == "re.sub"]
        ctx.require(len(fa) == 1 and len(su) == 1, "extraction does not use one re.findall and one re.sub")
        pf, ps = fa[0].value[0], su[0].value[0]
        ctx.check(isinstance(pf, str) and pf == ps and fa[0].value[1] is h and su[0].value[2] is h and su[0].value[1] == "", "C13.extract",
                  "the same pattern finds and removes the serialised scripts from the same text", EXT, f"findall {short(pf)} / sub {short(ps)}",
                  "the pattern used to find serialised dependencies differs from the one used to remove them (or the removal inserts text)")
        if isinstance(pf, str):
            ff, fs = _re_flags(fa[0], 2), _re_flags(su[0], 4)
            ctx.check(ff == fs and ff is not None, "C13.extract", "findall and sub use the same regex flags", EXT, f"flags {ff} / {fs}",
                      "the pattern is applied with different flags for finding and for removing")
            pats.add((pf, ff or 0))
        v = l.value
        items = v.items if isinstance(v, SList) else list(v) if isinstance(v, tuple) else []
        deps = items[1] if len(items) == 2 else None
        ok = isinstance(deps, SList) and deps.mode == "map" and not deps.cond and isinstance(deps.elt, SNew) and deps.elt.cls_name == "HTMLDependency" \
            and len(deps.elt.dstar) == 1 and isinstance(deps.elt.dstar[0], SOpaque) and (deps.elt.dstar[0].__dict__.get("extcall") or {}).get("q") == "json.loads" \
            and deps.elt.dstar[0].__dict__["extcall"]["args"][0] is deps.var
        base = deps.base if ok else None
        # list(dict.fromkeys(findall result)), written out or through the package's own unique()
        def _is_findall(o_: Any) -> bool:
            return isinstance(o_, SOpaque) and (o_.__dict__.get("extcall") or {}).get("q") == "re.findall"
        bc = (base.meta.get("call") if isinstance(base, SObj) else base.__dict__.get("call") if isinstance(base, SOpaque) else None) or {}
        if getattr(bc.get("func"), "qual", "") == "unique" and len(bc.get("args") or []) == 1 and not bc.get("kwargs"):
            fk = _is_findall(bc["args"][0]) and _unique_is_fromkeys(ctx, I)
        else:
            fk = _fromkeys_of(base, _is_findall)
        n += 1
        ctx.check(bool(ok and fk), "C13.dedup", "distinct serialisations in order of first appearance (dict.fromkeys) are rebuilt with HTMLDependency(**json.loads(text))", EXT,
                  f"deps = {short(deps)}", "the extracted dependencies are not the order-preserving de-duplication of the found serialisations rebuilt one by one")
    return n


def text_render(ctx: Ctx, I: Interp) -> None:
    prog = ctx.prog
    where = f"{CORE}:HTMLTextDocument.render"
    fn = prog.function(CORE, "HTMLTextDocument.render")
    cfg = Config()
    cfg.opaque_all = True
    cfg.coarse_counts = True
    cfg.loop_effects = True

    def mk(run: Any):
        s = SObj("self", {"HTMLTEXTDOC"})
        lp, iv = SObj("lib_prefix", {"STR", "NONE"}), SBool(("param", "include_version"))
        run.__dict__["o"] = (s, lp, iv)
        return ({fn.args.args[0].arg: s, "lib_prefix": lp, "include_version": iv}, s)

    n = 0
    run_cache: Dict[str, Any] = {}
    for l in I.run_function(CORE, "HTMLTextDocument.render", mk, cfg):
        s, lp, iv = l.run.__dict__["o"]
        ctx.require(l.kind == "return" and isinstance(l.value, SDict), "HTMLTextDocument.render does not return a dict")
        n += 1
        html = l.value.items.get("html")
        f = html.frags[0] if isinstance(html, SStr) and len(html.frags) == 1 and html.frags[0].kind == "OP" else None
        if f is not None and isinstance(f.a, tuple) and f.a[:2] == ("call", "re.sub"):
            args = f.b.get("args", [])
            ctx.fail("C13.replace", where, f"re.sub({[short(x) for x in args[:2]]}, ...)",
                     "the dependency markup is substituted with re.sub, which interprets backslashes and group references in the replacement: markup containing a "
                     "backslash is altered or raises", witness="dependency name 'C:\\\\new' rendered through HTMLTextDocument")
            continue
        ok = f is not None and isinstance(f.a, tuple) and f.a[0] == "str.replace"
        if not ctx.check(ok, "C13.replace", "the placeholder is substituted with str.replace", where, f"html = {short(html)}", f"the text is produced as {short(html)}, not by str.replace on the stored text"):
            continue
        args = l.run.atom_info.get(("strop",) + f.a, [])
        recv = f.b
        ro = None
        if isinstance(recv, SStr) and len(recv.frags) == 1 and recv.frags[0].kind == "OF":
            ro = recv.frags[0].a[1]
        ctx.check(len(args) == 3 and args[2] == 1, "C13.replace", "only the first occurrence of the placeholder is replaced (count=1)", where,
                  f"replace({[short(x) for x in args]})", "every occurrence of the placeholder is replaced (or the count is not 1): other text of the document is altered",
                  witness="HTMLTextDocument('<x/> ... <x/>', deps=[d], deps_replace_pattern='<x/>').render()")
        if len(args) >= 2:
            pat_ok = isinstance(args[0], SObj) and (args[0].meta.get("attr_of") or (None, None))[1] == "_deps_replace_pattern"
            mk_ = args[1]
            io = mk_.meta.get("item_of") if isinstance(mk_, SObj) else None
            mk_ok = io is not None and io[1] == "html" and isinstance(io[0], SObj) and (io[0].meta.get("call") or {}).get("func") is not None \
                and io[0].meta["call"]["func"].qual == "TagList.render"
            ctx.check(pat_ok and mk_ok and ro is not None and ro.endswith("._html"), "C13.replace", "stored text . replace(placeholder, rendered dependency tags, 1)", where,
                      f"{ro}.replace({[short(x) for x in args[:2]]})", "the replacement is not `self._html.replace(self._deps_replace_pattern, <rendered tags>, 1)`")
        # sibling agreement with HTMLDocument._hoist_head_content: same listing, same as_html_tags arguments
        calls = [e for e in l.effects if e.kind == "call"]
        # what is added to the tag list, in order: append(x) == extend([x]); extend([]) adds nothing
        class _Add:
            def __init__(self, value: Any):
                self.value = [value]
        items_: List[Any] = []
        maps_: List[Any] = []
        # the tag list that is rendered into the placeholder: what it was constructed with and what was added to it
        from .c11 import container_adds
        rend_ = [e for e in calls if getattr(e.target, "qual", "") == "TagList.render"]
        conts_ = [rend_[0].key] if rend_ else []
        if not conts_:
            conts_ = list({id(e.key): e.key for e in calls if getattr(e.target, "qual", "") in ("TagList.append", "TagList.extend")}.values())
        for c_ in conts_:
            for k_, v_, _ in container_adds(l.effects, c_, ctor=True):
                (items_ if k_ == "item" else maps_).append(_Add(v_))
        lst = [a_ for a_ in items_ if isinstance(a_.value[0], SNew) and a_.value[0].args[:1] == ("script",)]
        for e in lst:
            t = e.value[0]
            lt = listing_tokens(t.args[1], l) if len(t.args) > 1 else None
            sib = run_cache.setdefault("hoist", hoist_listing_shapes(prog, I))
            mine = (lt[0], lt[1]) if lt is not None else ("?", short(t.args[1]) if len(t.args) > 1 else None)
            ctx.check(len(sib) == 1 and mine == sib[0], "C13.sibling", "the listing is written exactly as HTMLDocument._hoist_head_content writes it", where,
                      f"text document: {mine}; HTMLDocument: {sib}",
                      f"HTMLTextDocument.render writes the dependency listing as {mine} while HTMLDocument writes {sib}: the two rendering routes give different markup",
                      witness="a dependency whose name contains '&': HTMLTextDocument(...).render() vs HTMLDocument(...).render()")
            ok = lt is not None and (lt[0], lt[1]) == LISTING and t.kwargs.get("type") == "application/html-dependencies" \
                and isinstance(lt[2], SObj) and (lt[2].meta.get("attr_of") or (None, None))[1] == "_deps"
            ctx.check(bool(ok), "C13.sibling", "same dependency listing as HTMLDocument puts in <head> (name[version];..., application/html-dependencies)", where,
                      f"listing {short(t)}", "the listing written by HTMLTextDocument differs from the one HTMLDocument writes: the two rendering routes are not equivalent")
        # the listing is written exactly when there is at least one dependency (as HTMLDocument does)
        deps_obj = s.attrs.get("_deps") if isinstance(s, SObj) else None
        du = getattr(deps_obj, "uid", None)
        ne = None
        for a_, v_ in l.atoms:
            if not (isinstance(a_, tuple) and len(a_) > 1 and a_[1] == du):
                continue
            if a_[0] == "len-cmp":
                op_, c_ = a_[2], a_[3]
                if (op_, c_) in ((">", 0), ("!=", 0), (">=", 1)):
                    ne = bool(v_)
                elif (op_, c_) in (("==", 0), ("<", 1), ("<=", 0)):
                    ne = not bool(v_)
                else:
                    ne = "other"
            elif a_[0] == "nonempty":
                ne = bool(v_)
            elif a_[0] == "count" and ne is None:
                ne = "count"
        if ne == "count":
            cs_ = [str(v_) for a_, v_ in l.atoms if isinstance(a_, tuple) and a_[0] == "count" and a_[1] == du]
            ne = not all(c == "n=0" for c in cs_)
        ctx.check(ne in (True, False) and bool(lst) == ne, "C13.sibling", "the dependency listing is written iff there is at least one dependency (as in HTMLDocument)", where,
                  f"listing={bool(lst)} under non-empty={ne}", f"HTMLTextDocument.render writes the dependency listing={bool(lst)} on a path where 'there are dependencies' is {ne}: "
                  f"the inserted markup differs from what HTMLDocument puts in <head>", witness="HTMLTextDocument(html, deps=[d], deps_replace_pattern=p).render()")
        ext = maps_
        okx = len(ext) == 1 and ext[0].value and isinstance(ext[0].value[0], SList) and ext[0].value[0].mode == "map"
        if ctx.check(bool(okx), "C13.sibling", "the dependency tags are as_html_tags(...) of every stored dependency, in order", where, f"extend {[short(e.value[0]) for e in ext]}",
                     "the dependency markup is not produced by as_html_tags for every stored dependency"):
            m = ext[0].value[0]
            c = m.elt.meta.get("call") if isinstance(m.elt, SObj) else None
            kw = (c or {}).get("kwargs", {})
            ctx.check(c is not None and c["func"].qual == "HTMLDependency.as_html_tags" and kw.get("lib_prefix") is lp and kw.get("include_version") is iv
                      and isinstance(m.base, SObj) and (m.base.meta.get("attr_of") or (None, None))[1] == "_deps", "C13.sibling",
                      "as_html_tags(lib_prefix=lib_prefix, include_version=include_version) over self._deps", where, f"as_html_tags kwargs { {k: short(v) for k, v in kw.items()} }",
                      "lib_prefix / include_version are not forwarded like HTMLDocument does")
    ctx.min_count("HTMLTextDocument.render paths", n, 1)
    # render() without arguments means the same thing for both document classes
    def _defaults(q: str) -> Dict[str, Any]:
        f_ = prog.function(CORE, q)
        a_ = f_.args
        dm = dict(zip([x.arg for x in a_.args][len(a_.args) - len(a_.defaults):], a_.defaults))
        dm.update({x.arg: d for x, d in zip(a_.kwonlyargs, a_.kw_defaults) if d is not None})
        out: Dict[str, Any] = {}
        for k_ in ("lib_prefix", "include_version"):
            try:
                out[k_] = prog.fold(dm[k_], prog.core()) if k_ in dm else "<required>"
            except Exception:
                out[k_] = "<unfoldable>"
        return out
    d1, d2 = _defaults("HTMLTextDocument.render"), _defaults("HTMLDocument.render")
    ctx.check(d1 == d2, "C13.sibling", "HTMLTextDocument.render and HTMLDocument.render have the same defaults for lib_prefix / include_version", where,
              f"text document {d1}; HTMLDocument {d2}",
              f"render() called without arguments uses {d1} for a text document but {d2} for an HTMLDocument: the dependency URLs inserted by the two routes differ",
              witness="HTMLTextDocument(html, deps=[d], deps_replace_pattern=p).render() vs HTMLDocument(d).render()")


def instance_extract(ctx: Ctx, I: Interp) -> None:
    """HTMLTextDocument.__init__ / _extract_serialized_html_deps: the text is replaced by the stripped text and the stored list is
    extended with exactly the extractor's list (no further resolution, filtering or re-ordering)."""
    prog = ctx.prog
    q = "HTMLTextDocument._extract_serialized_html_deps"
    where = f"{CORE}:{q}"
    fn = prog.function(CORE, q)
    cfg = Config()
    cfg.opaque_all = True

    def mk(run: Any):
        s = SObj("self", {"HTMLTEXTDOC"})
        run.__dict__["s"] = s
        return ({fn.args.args[0].arg: s}, s)

    n = 0
    for l in I.run_function(CORE, q, mk, cfg):
        ctx.require(l.kind == "return", f"{q} raises")
        n += 1
        s = l.run.__dict__["s"]
        ext = [e for e in l.effects if e.kind == "call" and getattr(e.target, "qual", "").endswith("_static_extract_serialized_html_deps")]
        ctx.require(len(ext) == 1, f"{q} does not call the static extractor exactly once")
        h_arg = ext[0].value[0] if ext[0].value else None
        ok_in = isinstance(h_arg, SObj) and (h_arg.meta.get("attr_of") or (None, None)) == (s, "_html")
        deps_attr = s.attrs.get("_deps")
        muts = [e for e in l.effects if (e.kind in ("mutcall", "call") and e.key is not None and (e.key == "extend" or str(getattr(e.target, "qual", "")).endswith(".extend"))
                                         and (e.target is deps_attr or e.key is deps_attr))]
        stores = [e for e in l.effects if e.kind == "store_attr" and e.target is s]
        st_html = [e for e in stores if e.key == "_html"]
        st_deps = [e for e in stores if e.key == "_deps"]

        def _component(v: Any, i: int) -> bool:
            comp = v.meta.get("component_of") if isinstance(v, SObj) else None
            if comp is not None:
                return i == comp[1] and _is_static_result(comp[0])
            io = v.meta.get("item_of") if isinstance(v, SObj) else None
            return io is not None and io[1] == i and _is_static_result(io[0])

        def _is_static_result(o: Any) -> bool:
            c = o.meta.get("call") if isinstance(o, SObj) else (o.__dict__.get("call") if isinstance(o, SOpaque) else None)
            return c is not None and getattr(c.get("func"), "qual", "").endswith("_static_extract_serialized_html_deps")

        ext_args = [e.value[0] if e.value else None for e in muts]
        ok = ok_in and len(st_html) == 1 and _component(st_html[0].value, 0) and not st_deps and len(muts) == 1 and _component(ext_args[0], 1)
        ctx.check(bool(ok), "C13.extract", "the stored text becomes the stripped text and the stored list is extended with the extracted dependencies as they are", where,
                  f"_html := {short(st_html[0].value) if st_html else None}; _deps: stores {[short(e.value) for e in st_deps]} extends {[short(x) for x in ext_args]}",
                  "HTMLTextDocument does not keep the extracted dependencies exactly as the extractor returns them (one per distinct serialisation, in order of appearance): "
                  "they are resolved, filtered, replaced or re-ordered before being stored", witness="two serialised dependencies with the same name and different versions")
    ctx.min_count(f"{q} paths", n, 1)


def json_mode(ctx: Ctx, I: Interp) -> None:
    prog = ctx.prog
    where = f"{CORE}:_render_tag_or_taglist"
    fn = prog.function(CORE, "_render_tag_or_taglist")
    cfg = Config()
    cfg.opaque_all = True

    def mk(run: Any):
        x = SObj("x", {"TAG", "TAGLIST"})
        return ({fn.args.args[0].arg: x}, None)

    seen = set()
    for l in I.run_function(CORE, "_render_tag_or_taglist", mk, cfg):
        mode = None
        for a, v in l.atoms:
            if isinstance(a, tuple) and a[0] == "eq" and isinstance(a[2], tuple) and a[2][1] == "json":
                mode = "json" if str(v).startswith("==") else "default"
        if mode is None:
            continue
        seen.add(mode)
        ser = [o for o in _lists(l) if o.mode == "map" and isinstance(o.elt, SStr) and "serialize_to_script_json" in repr(o.elt) or
               (o.mode == "map" and isinstance(o.elt, (SObj, SOpaque)) and "serialize_to_script_json" in repr(getattr(o.elt, "meta", {}).get("call", "")))]
        txt = repr(l.value)
        appended = "join" in txt
        if mode == "json" and not appended:
            # nothing to append: the path has established that the list of serialisations is empty
            lists_ = [o for o in _lists(l) if o.mode == "map"]
            empties = [a for a, v in l.atoms if isinstance(a, tuple) and a[0] == "nonempty" and v is False and any(a[1] == o.uid for o in lists_)]
            if empties:
                ctx.ok("C13.mode", "json mode with no dependencies appends nothing")
                continue
        ctx.check(appended == (mode == "json"), "C13.mode", f"serialised dependencies are appended iff the mode is 'json' (mode {mode})", where,
                  f"mode {mode}: returns {short(l.value)}", f"in mode {mode!r} the serialised dependencies are {'not ' if mode == 'json' else ''}appended to str(x)")
        if mode == "json" and appended and isinstance(l.value, SStr):
            fr = [f for f in l.value.frags if not (f.kind == "LIT" and f.a == "")]
            shape = len(fr) == 2 and fr[0].kind == "OF" and fr[1].kind == "OP" and isinstance(fr[1].a, tuple) and fr[1].a[:2] == ("join", "\n")
            ctx.check(shape, "C13.mode", "in json mode the result is the rendered markup followed by the serialisations joined by newlines, nothing else", where,
                      f"returns {short(l.value)}", f"in json mode str(x) is {short(l.value)}: extra text is added around the serialised dependencies "
                      f"(e.g. a separator that is also written when there are no dependencies)", witness="str(div('a')) in json mode")
        if mode == "json" and appended:
            ok = False
            src = None
            joins = [f for f in l.value.frags if f.kind == "OP" and isinstance(f.a, tuple) and f.a[0] == "join" and isinstance(f.b, dict)] if isinstance(l.value, SStr) else []
            srcs = [f.b.get("over") if f.b.get("over") is not None else f.b.get("seq") for f in joins] + [o.base for o in _lists(l) if o.mode == "map" and o.base is not None]
            from ..loopbuilt import contributions, iter_base
            srcs2 = []
            for src in srcs:
                if isinstance(src, SList) and src.mode != "map":
                    cs = contributions(l, src)
                    if cs and all(c["how"] == "append" and c["loop"] is not None for c in cs):
                        srcs2 += [iter_base(c["iter"]) for c in cs]
                        continue
                srcs2.append(src)
            srcs = srcs2
            for src in srcs:
                io = src.meta.get("item_of") if isinstance(src, SObj) else None
                c = (io[0].meta.get("call") if io is not None and isinstance(io[0], SObj) else None) or {}
                if io is not None and io[1] == "dependencies" and (c.get("name") == "render" or getattr(c.get("func"), "qual", "").endswith(".render")):
                    ok = True
                else:
                    ok = False
                    break
            # ... and each one is written by the serialiser that neutralises "</" (not by a second, hand-made writer)
            for f_ in joins:
                it_, var_ = f_.b.get("item"), f_.b.get("var")
                if it_ is None:
                    # a loop-built list: the appended values
                    sq_ = f_.b.get("seq")
                    vals_ = []
                    if isinstance(sq_, SList):
                        from ..loopbuilt import contributions as _contrib
                        cands_ = [sq_] + ([sq_.__dict__["entry"]] if isinstance(sq_.__dict__.get("entry"), SList) else [])
                        for cnd_ in cands_:
                            vals_ += [(c_["value"], c_["element"]) for c_ in _contrib(l, cnd_)]
                    pairs_ = vals_
                else:
                    pairs_ = [(it_, var_)]
                for val_, el_ in pairs_:
                    ctx.check(_is_serialised(val_, el_), "C13.mode", "each appended piece is dep.serialize_to_script_json().get_html_string()", where,
                              f"appends {short(val_)} per dependency",
                              f"in json mode a dependency is written as {short(val_)}, not through serialize_to_script_json().get_html_string(): the \"</\" neutralisation "
                              f"and the marker attribute of that serialiser are bypassed", witness="str(div(dep_with('</script>' in a field))) in json mode")
            ctx.check(ok and bool(srcs), "C13.mode", "the dependencies serialised in json mode are exactly those of the rendering result (rendered['dependencies'])", where,
                      f"serialises the elements of {short(src)}",
                      f"in json mode the serialised dependencies are taken from {short(src)}, not from the dependency list of the rendering that produced the markup: "
                      f"dependencies that only appear after tagify() (widgets) are never serialised, so post-processing with HTMLTextDocument loses them",
                      witness="str(div(Widget())) in json mode, Widget().tagify() returning a tag with a dependency")
    ctx.require(seen == {"json", "default"}, "_render_tag_or_taglist does not branch on the render mode")


def _is_serialised(v: Any, el: Any) -> bool:
    """v == el.serialize_to_script_json().get_html_string()"""
    recv = None
    if isinstance(v, SStr) and len(v.frags) == 1 and v.frags[0].kind == "OP" and isinstance(v.frags[0].a, tuple) \
            and v.frags[0].a[:1] == ("call",) and str(v.frags[0].a[1]).endswith("get_html_string") and isinstance(v.frags[0].b, dict):
        if v.frags[0].b.get("args") or v.frags[0].b.get("kwargs"):
            return False
        recv = v.frags[0].b.get("recv")
    elif isinstance(v, SOpaque) and (v.__dict__.get("method_call") or {}).get("name") == "get_html_string":
        mc = v.__dict__["method_call"]
        if mc.get("args") or mc.get("kwargs"):
            return False
        recv = mc.get("recv")
    if recv is None:
        return False
    c = recv.meta.get("call") if isinstance(recv, SObj) else None
    if c is not None:
        return getattr(c.get("func"), "qual", "").endswith("serialize_to_script_json") and c.get("recv") is el and not c.get("args") and not c.get("kwargs")
    mc2 = recv.__dict__.get("method_call") if isinstance(recv, SOpaque) else None
    return bool(mc2) and mc2.get("name") == "serialize_to_script_json" and mc2.get("recv") is el and not mc2.get("args") and not mc2.get("kwargs")


def _lists(l: Any) -> List[SList]:
    return [v for v in (l.env or {}).values() if isinstance(v, SList)]


def check(ctx: Ctx) -> None:
    ctx.explanation = (
        "(1) The sanitiser chain applied to json.dumps(...) in serialize_to_script_json is extracted by Engine A and applied, as a "
        "folded constant transformer, to the finite language the property fixes: all 64 letter-case spellings of '</script' followed by "
        "each terminator the HTML tokenizer accepts (448 words); none may survive and every word must still JSON-decode to itself. "
        "(2) The keys of the serialised dict literal equal the parameters of HTMLDependency.__init__ and each carries the same-named "
        "field. (3) The literal prefix of the extraction regex (from its regex AST) equals the open tag derived for the constant "
        "Tag('script', type=..., data_html_dependency=True) through the attribute-name pipeline; the body group is lazy, matches line "
        "breaks, and the terminator is </script>. (4) findall and sub use one pattern on the same text; de-duplication is a membership "
        "test against all earlier serialisations with append order kept; reconstruction is HTMLDependency(**json.loads(text)). "
        "(5) HTMLTextDocument.render substitutes with str.replace(placeholder, markup, 1) and writes the same listing / "
        "as_html_tags(lib_prefix=, include_version=) as HTMLDocument. (6) _render_tag_or_taglist appends serialisations iff the mode "
        "is 'json'. Full value round-trip for every field string rests on json/Version axioms.")
    ctx.trust("json.dumps/loads are mutual inverses and '\\/' is a legal JSON escape", "HTML tokenizer: a script element ends at the first case-insensitive '</script' followed by whitespace, '/' or '>'",
              "re module semantics", "Engine A abstract semantics")
    I = Interp(ctx.prog)
    tag = neutraliser(ctx, I)
    extraction(ctx, I, tag)
    text_render(ctx, I)
    # what a text document holds is its own: no list shared through the class by every HTMLTextDocument
    from .c18 import class_level_state
    class_level_state(ctx, "C13.extract", only={"HTMLTextDocument"})
    instance_extract(ctx, I)
    json_mode(ctx, I)
