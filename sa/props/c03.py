"""C03 - attribute values are inert, single-line, and decode to the original (DESIGN 4, C03)."""

from __future__ import annotations

from typing import Any, List

from .. import attrmodel
from ..attrmodel import UPD, ValueClass
from ..rendercheck import TG, model
from ..report import Ctx
from ..tables import check_escape_function, check_escape_tables
from ..values import SDict, SList, SNew, SObj, SStr, short
from .c01 import attr_loop_obligations

CORE = "htmltools._core"
NV = f"{CORE}:TagAttrDict._normalize_attr_value"

EXPECT_VALUE = {"NONE": "drop", "FALSE": "drop", "TRUE": "empty", "STR": "asis", "JSXEXPR": "asis", "HTMLSTR": "asis",
                "INT": "str", "FLOAT": "str"}


def value_table_obligations(ctx: Ctx, pid: str) -> None:
    t = attrmodel.normalize_value_table(ctx.prog)
    for d in t["decorators"]:
        base = d.split("(")[0].split(".")[-1]
        if base == "staticmethod":
            continue
        if base in ("lru_cache", "cache"):
            typed = "typed=True" in d.replace(" ", "")
            ctx.check(typed, f"{pid}.value", "value normalisation is not memoised across equal-but-different values", NV,
                      f"@{d}", f"_normalize_attr_value is memoised with @{d}: the cache key compares arguments with ==, so True/1/1.0 "
                      f"and False/0/0.0 share entries and the result depends on which was seen first",
                      witness="div(a=True); div(b=1.0) renders b=\"\"")
            continue
        ctx.require(False, f"_normalize_attr_value: decorator @{d} not modelled")
    for k, res in sorted(t["table"].items()):
        want = EXPECT_VALUE.get(k, "raise")
        for (r, free, reads) in res:
            extra = f" (when {free[0][1]})" if free else ""
            if reads:
                ctx.fail(f"{pid}.value", NV, f"{k}: reads {reads[0].target}", f"value normalisation reads module state {reads[0].target}")
            good = r[0] == want and (want != "raise" or r[1] == "TypeError")
            ctx.check(good, f"{pid}.value", f"attribute value of kind {k} -> {want}", NV, f"{k} -> {r[0]} {r[1] or ''}{extra}",
                      f"an attribute value of kind {k} is handled as `{r[0]} {r[1] or ''}`{extra}; the rule is `{want}` "
                      f"(None/False omitted, True empty, str/HTML as is, numbers as str(x), others TypeError)",
                      witness={"INT": "div(tabindex=0)", "FLOAT": "div(x=0.0)", "TRUE": "div(hidden=True)"}.get(k, f"div(x=<{k}>)"))


def merge_obligations(ctx: Ctx, pid: str, only: str = "") -> None:
    u = attrmodel.update_rows(ctx.prog)
    n = 0
    for r in u["rows"]:
        if r.outcome == "raise" or r.stored is None:
            continue
        vc = ValueClass(r.stored)
        what = f"update item: value kind {_ks(r.v_kinds)}, name {'already' if r.seen else 'not'} seen" + \
               (f", accumulated value {_ks(r.prev_kinds)}" if r.seen and r.prev_kinds else "")
        if vc.kind == "other":
            ctx.require(False, f"TagAttrDict.update stores a value the model cannot classify: {short(r.stored)}")
        probs = vc.problems()
        if only == "trusted":
            probs = [p for p in probs if "HTML() markup" in p or "trusted markup" in p]
            if r.seen and r.prev_kinds and r.prev_kinds <= {"HTMLSTR"} and r.v_kinds <= {"HTMLSTR"}:
                ctx.check(vc.kind == "html", f"{pid}.merge", what + " stays HTML()", UPD, what + " -> " + vc.kind,
                          "merging two HTML() values for one attribute yields a plain str, which the writer then escapes",
                          witness="div({'class': HTML('a&amp;b')}, class_=HTML('c'))")
        elif only == "plain":
            probs = [p for p in probs if "plain fragment" in p or "already escaped" in p]
        n += 1
        ctx.check(not probs, f"{pid}.merge", what, UPD, what + f" -> {short(r.stored)}",
                  "; ".join(probs), witness="div({'class': 'a\" onclick=\"alert(1)'}, class_=HTML('x'))")
    ctx.min_count(f"{pid} merge rows", n, 4)


def _ks(ks: Any) -> str:
    if not ks:
        return "?"
    ks = sorted(ks)
    return "|".join(ks) if len(ks) <= 3 else f"{len(ks)} kinds"


def setitem_obligations(ctx: Ctx, pid: str, exact: bool = False) -> None:
    from ..interp import Config, Interp
    I = Interp(ctx.prog)
    fn = ctx.prog.function(CORE, "TagAttrDict.__setitem__")
    ps = [a.arg for a in fn.args.args]
    ctx.require(len(ps) == 3, "TagAttrDict.__setitem__ signature changed")
    where = f"{CORE}:TagAttrDict.__setitem__"

    def mk(run: Any):
        s = SObj("self", {"TAGATTRDICT"})
        v = SObj("value", attrmodel.ANY_VALUE_KINDS)
        run.__dict__["v"] = v
        return ({ps[0]: s, ps[1]: SObj("name", {"STR"}), ps[2]: v}, s)

    n = 0
    for l in I.run_function(CORE, "TagAttrDict.__setitem__", mk, Config()):
        v = l.run.__dict__["v"]
        if l.kind == "return" and not (v.kinds & {"NONE", "FALSE"}):
            # a value that is not None/False is stored, whatever its content (an empty string is a value too)
            st_ = [e for e in l.effects if (e.kind == "basecall" and str(e.key).endswith("__setitem__"))
                   or (e.kind == "store_item" and e.target is not None and getattr(e.target, "name", "") == "self")]
            cond_ = [str(lbl) for _, lbl in l.atoms][-3:]
            ctx.check(bool(st_), f"{pid}.setitem", f"item assignment stores a value of kind {_ks(v.kinds)}", where,
                      f"value kind {_ks(v.kinds)}: no store on path {cond_}",
                      f"`attrs[name] = value` returns without storing a value of kind {_ks(v.kinds)} (path {cond_}): the attribute is missing from the "
                      f"rendered tag although the constructor / update() keep it (copy() re-inserts every item through __setitem__, so tagify()/render() lose it too)",
                      witness="t = div(class_=''); str(t)")
        for e in l.effects:
            if e.kind == "basecall" and str(e.key).endswith("__setitem__") or (e.kind == "store_item" and e.target is not None and getattr(e.target, "name", "") == "self"):
                n += 1
                val = e.value[1] if e.kind == "basecall" else e.value
                vc = ValueClass(val)
                ok = vc.kind in ("plain", "html", "asis") and not vc.problems() and not (v.kinds & {"NONE", "FALSE"})
                ctx.check(ok, f"{pid}.setitem", f"item assignment stores a normalised value (kind {_ks(v.kinds)})", where,
                          f"value kind {_ks(v.kinds)} stored as {short(val)}",
                          f"item assignment stores {short(val)} for a value of kind {_ks(v.kinds)} without normalising it",
                          witness="tag.attrs['x'] = None")
                if exact and ok and v.kinds <= {"STR", "JSXEXPR"}:
                    # item assignment *replaces*: a plain string is stored as that string (no merge with, or marking taken from, the old value)
                    same = vc.kind == "plain" and all(f.kind in ("OF", "OP") and not (f.c or ()) for f in vc.frags) and len(vc.frags) <= 1
                    ctx.check(same, f"{pid}.setitem", "item assignment stores a plain string as given", where, f"str stored as {short(val)}",
                              f"`attrs[name] = 'text'` stores {short(val)}, not the string that was assigned: what is read back (and what has_class / remove_class "
                              f"split into tokens) differs from what was written", witness="t = div(class_=HTML('a')); t.attrs['class'] = 'x&y'; t.attrs['class']")
    ctx.min_count(f"{pid} __setitem__ stores", n, 2)


def helper_obligations(ctx: Ctx, pid: str) -> None:
    """add_class / add_style only write through TagAttrDict.update with un-merged values."""
    for meth, argname in (("add_class", "class_"), ("add_style", "style")):
        where = f"{CORE}:Tag.{meth}"
        runs = attrmodel.helper_writes(ctx.prog, meth, {argname: {"STR", "HTMLSTR"}, "prepend": None})
        nw = 0
        for r in runs:
            for w in r["writes"]:
                nw += 1
                if w["via"] == "TagAttrDict.update":
                    vals: List[Any] = []
                    for a in w["args"]:
                        if isinstance(a, SDict):
                            vals.extend(a.items.values())
                        else:
                            vals.append(a)
                    vals.extend(w.get("kwargs", {}).values())
                    for v in vals:
                        vc = ValueClass(v)
                        raw = vc.kind in ("plain", "html", "asis", "none") and len([f for f in vc.frags if f.kind == "OF"]) <= 1 \
                            and not vc.problems()
                        if not raw and isinstance(v, SObj):
                            raw = True   # a value read back from the attribute map or the argument itself
                        ctx.check(raw, f"{pid}.helper", f"Tag.{meth} hands un-merged values to attrs.update", where,
                                  f"update(... {short(v)} ...)", f"Tag.{meth} passes a pre-merged value {short(v)} to attrs.update: "
                                  + "; ".join(vc.problems() or ["merging must happen inside TagAttrDict.update"]))
                else:
                    v = w["args"]
                    if isinstance(v, list) and v:
                        v = v[-1]
                    vc = ValueClass(v)
                    probs = vc.problems()
                    ctx.check(vc.kind in ("plain", "html", "asis") and not probs, f"{pid}.helper",
                              f"Tag.{meth} writes a correctly escaped value", where, f"{w['via']} {short(v)}",
                              f"Tag.{meth} writes the attribute directly ({w['via']}) with {short(v)}: " + ("; ".join(probs) or "value not classifiable"),
                              witness=f"div(style=HTML('x:1;')).{meth}('a\"b;')" if meth == "add_style" else None)
        ctx.min_count(f"{pid} Tag.{meth} attribute writes", nw, 1)


def check(ctx: Ctx) -> None:
    ctx.explanation = (
        "(1) The attribute writer (loop body of Tag.get_html_string, interpreted by Engine A) emits ' key=\"value\"' with a "
        "plain value attribute-escaped exactly once and an HTML() value verbatim. (2) Everything that can be stored: the "
        "dispatch table of _normalize_attr_value over all value kinds; every path of the item loop of TagAttrDict.update "
        "(value kind x name-seen x accumulated kind) stores a value whose plain fragments are unescaped when the result is "
        "plain and attribute-escaped exactly once when the result is HTML(); __setitem__ stores normalised values; "
        "add_class/add_style write only through attrs.update. (3) html_escape in attribute mode, interpreted abstractly, "
        "maps each of & < > \" ' CR LF to one reference that decodes back, and its fast path is guarded by an unanchored "
        "search covering all seven. Decides which escaping is applied on which path and the character map, not strings.")
    ctx.trust("str.replace / re.search semantics", "html.unescape", "Python operator dispatch to __radd__", "Engine A abstract semantics")
    ctx.assume("dict mutators the property does not list (setdefault, |=) are out of scope")
    m = model(ctx)
    attr_loop_obligations(ctx, m, "C03", want_value=True)
    value_table_obligations(ctx, "C03")
    merge_obligations(ctx, "C03")
    setitem_obligations(ctx, "C03")
    # consolidate_attrs hands the attributes on as stored (an HTML() value that came back as plain str would be escaped again)
    from ..report import SharedCtx
    from .c15 import partition_obligations
    partition_obligations(SharedCtx(ctx, lambda r: "C03.consolidate" if r == "C15.consolidate" else None))
    helper_obligations(ctx, "C03")
    check_escape_function(ctx, ["attr"], "C03", strict_other=True)
    check_escape_tables(ctx, "C03", attr=True)
