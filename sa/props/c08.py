"""C08 - rendering and tagify are pure and consistent; tagify returns an independent copy (DESIGN 4, C08)."""

from __future__ import annotations

import ast
from typing import Any, Dict, List, Optional, Tuple

from ..eval_expr import _K
from ..frontend import ClassInfo, norm
from ..interp import Config, Interp
from ..ownership import Ownership, owner
from ..report import Ctx
from ..values import (ALL_KINDS, ANY_VALUE_KINDS, META_KINDS, NODE_KINDS, SBool, SDict, SFunc, SList, SNew, SObj, SOpaque, SSplat, SStr, Sym, Unmodelled, short)

CORE = "htmltools._core"
ENTRIES = [
    "Tag.tagify", "Tag.render", "Tag.__str__", "Tag.__repr__", "Tag._repr_html_", "Tag.get_html_string", "Tag.get_dependencies",
    "Tag.save_html", "Tag.__eq__", "Tag.__copy__",
    "TagList.tagify", "TagList.render", "TagList.__str__", "TagList.__repr__", "TagList._repr_html_", "TagList.get_html_string",
    "TagList.get_dependencies", "TagList.save_html", "TagList.__eq__",
    "HTMLDocument.render", "HTMLDocument.save_html", "HTMLDocument.__copy__",
    "HTMLDependency.as_html_tags", "HTMLDependency.as_dict", "HTMLDependency.source_path_map",
    "HTMLDependency.serialize_to_script_json", "HTMLDependency.copy_to", "HTMLDependency.__str__", "HTMLDependency.__repr__",
    "HTMLDependency.__eq__",
]
TAGIFIABLE_KINDS = {"TAG", "JSXTAG", "TAGIFIABLE_ONLY", "TAGIFIABLE_REPR"}


def builder_adds(eff: List[Any]) -> List[Dict[str, Any]]:
    """What one iteration adds to a fresh local list that is being built (instead of editing the copy in place):
    {'list': B, 'where': 'end'|'front', 'one': v} for append(v) / extend([v]) / B[:0] = [v] / insert(0, v),
    {'list': B, 'where': .., 'many': vs} when a whole list of nodes is added."""
    out: List[Dict[str, Any]] = []
    for e in eff:
        if not isinstance(e.target, SList):
            continue
        where = None
        val: Any = None
        single = False
        if e.kind == "mutcall" and e.key == "append" and e.value:
            where, val, single = "end", e.value[0], True
        elif e.kind == "mutcall" and e.key in ("extend", "__iadd__") and e.value:
            where, val = "end", e.value[0]
        elif e.kind == "mutcall" and e.key == "insert" and e.value and len(e.value) == 2 and e.value[0] == 0 and not isinstance(e.value[0], bool):
            where, val, single = "front", e.value[1], True
        elif e.kind == "store_slice" and isinstance(e.key, tuple) and e.key[0] in (None, 0) and e.key[1] == 0 and not isinstance(e.key[1], bool):
            where, val = "front", e.value
        else:
            continue
        d_ = getattr(val, "iter_descr", None)
        if (d_ is not None and d_[0] == "reversed") or short(val).startswith("<opaque ('reversed'"):
            # pieces added back to front into a list that is flipped afterwards: the order bookkeeping of the builder rules
            # (forward <-> at the end, reversed <-> at the front) does not cover it
            raise Unmodelled("TagList.tagify: builder list filled with reversed(...) pieces (collected back to front and flipped later)")
        if not single:
            its = val.items if isinstance(val, SList) and val.mode == "concrete" else list(val) if isinstance(val, (list, tuple)) else None
            if its is not None and len(its) == 1 and not isinstance(its[0], SSplat):
                val, single = its[0], True
            elif its is not None:
                out.append({"list": e.target, "where": where, "other": val, "effect": e})
                continue
        out.append({"list": e.target, "where": where, ("one" if single else "many"): val, "effect": e})
    return out


def builder_is_result(ctx: Ctx, I: Interp, rule: str) -> None:
    """Builder form of TagList.tagify: the list that the loop fills is what the returned copy holds, the copy is a copy of self,
    and the direction of the loop matches where the nodes are added (reversed <-> at the front)."""
    prog = ctx.prog
    where = f"{CORE}:TagList.tagify"
    cfg = Config()
    cfg.opaque_all = True
    cfg.coarse_counts = True

    def mk(run: Any):
        s = SObj("self", {"TAGLIST"})
        run.__dict__["s"] = s
        return ({"self": s}, s)

    n = 0
    for l in I.run_function(CORE, "TagList.tagify", mk, cfg):
        if l.kind != "return":
            continue
        n += 1
        s = l.run.__dict__["s"]
        v = l.value
        is_copy = isinstance(v, SObj) and v.origin == "new" and v.meta.get("copy_of") is s
        data = [e for e in l.effects if e.kind == "store_attr" and e.target is v and e.key == "data"]
        adds = [a for a in builder_adds([e for e in l.effects if e.__dict__.get("in_loop") is not None])]
        lists = {id(a["list"]) for a in adds}
        if any(e.kind == "mutcall" and e.key == "reverse" and isinstance(e.target, SList) and id(e.target) in lists for e in l.effects):
            raise Unmodelled("TagList.tagify: builder list flipped with .reverse() after the loop (collected back to front)")
        okd = is_copy and len(data) == 1 and isinstance(data[0].value, SList) and lists == {id(data[0].value)}
        ctx.check(bool(okd), rule, "the list the loop builds becomes the data of the returned copy of self", where,
                  f"returns {short(v)} with data := {short(data[0].value) if data else None}",
                  "TagList.tagify builds the expanded nodes in a list that is not what the returned copy holds (or does not return a copy of the list)")
        recs = [r for r in l.run.loops if r.fn_qual.endswith("TagList.tagify")]
        rev = bool(recs) and (getattr(recs[0].iter_value, "iter_descr", None) or (None,))[0] == "reversed"
        wh = {a["where"] for a in adds}
        ctx.check(wh == ({"front"} if rev else {"end"}), rule, "nodes are added at the end of the new list in a forward loop (at the front in a reversed one)", where,
                  f"{'reversed' if rev else 'forward'} loop adds at {sorted(wh)}", "the expanded nodes are collected in the wrong order for the direction of the loop")
    ctx.min_count("TagList.tagify returning paths (builder form)", n, 1)


def tagify_table(ctx: Ctx, I: Interp) -> bool:
    """C08.2b / C09.2: per child kind, what TagList.tagify stores into its copy."""
    prog = ctx.prog
    where = f"{CORE}:TagList.tagify"
    cfg = Config()
    cfg.opaque_all = True
    cfg.stop_at_loop = ("TagList.tagify", 0)

    def mk(run: Any):
        s = SObj("self", {"TAGLIST"})
        run.__dict__["s"] = s
        return ({"self": s}, s)

    ok_all = True
    seen = set()
    builder_seen: List[bool] = []
    for l in I.run_function(CORE, "TagList.tagify", mk, cfg):
        rec = getattr(l.run, "stop_loop_record", None)
        if rec is None:
            continue
        s = l.run.__dict__["s"]
        start = rec.__dict__.get("body_effect_start", 0)
        eff = l.effects[start:]
        stores = [e for e in eff if e.kind in ("store_item", "store_slice")]
        # the element looked at in this iteration
        elems = [o for o in l.run.elem_memo.values() if isinstance(o, SObj) and o.elem_of is not None]
        child = l.env.get("child")
        if not isinstance(child, SObj):
            cands = [o for o in elems]
            ctx.require(len(cands) >= 1, "TagList.tagify: cannot identify the element examined by the loop body")
            child = cands[0]
        cp = None
        for e in stores:
            cp = e.target
        free = [a for a in l.atoms if isinstance(a[0], tuple) and a[0][0] in ("len-cmp", "count", "cmp", "eq", "truthy", "same")]
        cond = f" when {free[0][0][0]}={free[0][1]}" if free else ""
        adds = builder_adds(eff)
        in_place = [e for e in stores if not isinstance(e.target, SList)]
        if adds and not in_place:
            # builder form: every child contributes its nodes to a new list (checked once: that list becomes the result)
            if not builder_seen:
                builder_seen.append(True)
                builder_is_result(ctx, I, "C08.copy")
            for k in sorted(child.kinds):
                seen.add(k)
                a = adds[0] if len(adds) == 1 else {}
                one, many = a.get("one"), a.get("many")
                if k in TAGIFIABLE_KINDS:
                    good = (one is not None and _derives_from_tagify(one, child)) or (many is not None and _derives_from_tagify(many, child))
                    what = f"a {k} child contributes the result of its tagify()"
                    msg = f"a tagifiable child of kind {k} does not contribute its tagify() result to the list returned by tagify(){cond}"
                elif k in META_KINDS:
                    good = isinstance(one, SObj) and one.meta.get("copy_of") is child and one.origin == "new"
                    what = f"a {k} child contributes copy(child)"
                    msg = f"a metadata node ({k}) is shared between the original and the list returned by tagify(){cond}"
                else:
                    good = one is child
                    what = f"a {k} child (immutable text / self-rendering object) is kept"
                    msg = f"a child of kind {k} is dropped or rewritten by tagify()"
                ok_all &= ctx.check(bool(good), "C08.copy", what, where, f"{k} child adds {[short(x.get('one', x.get('many', x.get('other')))) for x in adds]}{cond}", msg,
                                    witness="x = div(br()); y = x.tagify(); y.children[0].add_class('a'); str(x)")
            continue
        for k in sorted(child.kinds):
            seen.add(k)
            if k in TAGIFIABLE_KINDS:
                good = False
                det = "nothing is stored"
                if stores:
                    e = stores[-1]
                    v = e.value
                    tgt_ok = isinstance(e.target, SObj) and e.target.origin == "new" and e.target.meta.get("copy_of") is s
                    from_tagify = _derives_from_tagify(v, child)
                    good = tgt_ok and from_tagify
                    det = f"stores {short(v)} into {short(e.target)}"
                ok_all &= ctx.check(good, "C08.copy", f"a {k} child is replaced in the copy by the result of its tagify()", where,
                                    f"{k} child: {det}{cond}",
                                    f"a tagifiable child of kind {k} is left as it is in the list returned by tagify(){cond} ({det}): "
                                    f"the copy shares that tag object with the original, and an un-expanded object stays un-expanded",
                                    witness="x = div(br()); y = x.tagify(); y.children[0].add_class('a'); str(x)")
            elif k in META_KINDS:
                good = False
                det = "nothing is stored"
                if stores:
                    e = stores[-1]
                    v = e.value
                    good = isinstance(v, SObj) and v.meta.get("copy_of") is child and v.origin == "new" and e.kind == "store_item"
                    det = f"stores {short(v)}"
                ok_all &= ctx.check(good, "C08.copy", f"a {k} child is replaced in the copy by copy(child)", where, f"{k} child: {det}{cond}",
                                    f"a metadata node ({k}) is shared between the original and the list returned by tagify(){cond}")
            else:
                ok_all &= ctx.check(not stores, "C08.copy", f"a {k} child (immutable text / self-rendering object) is kept", where,
                                    f"{k} child: {[repr(e)[:50] for e in stores]}", f"a child of kind {k} is rewritten by tagify()")
    ctx.require(TAGIFIABLE_KINDS <= seen and META_KINDS <= seen, "TagList.tagify: loop body table incomplete")
    return ok_all


def _derives_from_tagify(v: Any, child: SObj, depth: int = 0) -> bool:
    if depth > 5:
        return False
    if isinstance(v, SObj):
        if v.meta.get("tagify_of") is child:
            return True
        c = v.meta.get("call")
        if c is not None:
            f = c["func"]
            if getattr(f, "qual", "").endswith(".tagify") and c.get("recv") is child:
                return True
            return any(_derives_from_tagify(a, child, depth + 1) for a in c["args"])
    if isinstance(v, SOpaque):
        c = v.__dict__.get("call")
        if c is not None:
            if getattr(c["func"], "qual", "").endswith(".tagify") and c.get("recv") is child:
                return True
            return any(_derives_from_tagify(a, child, depth + 1) for a in c["args"])
    return False


def purity(ctx: Ctx, tagify_ok: bool, rule: str = "C08.pure", report_globals: bool = False) -> Ownership:
    O = Ownership(ctx.prog, skip_modules=("htmltools._jsx",))
    if tagify_ok:
        # established by C08.copy above: mutable elements of a tagify() result are fresh objects
        O.override_returns["TagList.tagify"] = {"elems_fresh": True}
        O.override_returns["Tag.tagify"] = {"elems_fresh": True}
    # an override of a special method that was removed is not an entry point any more (the inherited method answers; the
    # equality / delegation obligations look at what is inherited)
    entries = [q for q in ENTRIES if not (q.split(".")[-1] in ("__eq__", "__str__", "__repr__", "_repr_html_") and not ctx.prog.has_function(CORE, q))]
    O.solve(list(entries))
    errs = [(q, O.sums[q].error) for q in O.analysed if O.sums[q].error]
    ctx.require(not errs, "ownership analysis cannot model: " + "; ".join(f"{q}: {e}" for q, e in errs[:3]))
    ctx.count("functions in the read-only closure", len(O.analysed))
    ctx.count("call sites resolved", O.resolved_calls)
    ctx.count("external calls assumed pure", O.unresolved_calls)
    ctx.min_count("functions analysed for purity", len(O.analysed), 30)
    for q in entries:
        ctx.require(q in O.sums, f"anchor vanished: {q}")
        sm = O.sums[q]
        where = f"{CORE}:{q}"
        bad = [(p, st) for p, sites in sm.mutates.items() for st in sites]
        if not bad and not (sm.globals and report_globals):
            ctx.ok(rule, f"{q} mutates nothing reachable from its receiver/arguments", paths=sm.paths)
            continue
        for p, st in bad:
            chain = " -> ".join((q,) + st.chain) if st.chain else q
            ctx.fail(rule, f"{CORE}:{st.fn}", st.text(),
                     f"`{st.text()}` in {st.fn} modifies {st.target}, which is reachable from `{p}` of the read-only operation {q} "
                     f"(call path: {chain}{' -> ' + st.fn if st.fn != (st.chain[-1] if st.chain else q) else ''})",
                     witness=_PURE_WITNESS.get(st.fn), line=getattr(st.node, "lineno", None))
        for st in (sm.globals if report_globals else []):
            ctx.fail(rule, f"{CORE}:{st.fn}", st.text(), f"{st.fn} writes module/process state ({st.target}) on the path of read-only operation {q}",
                     line=getattr(st.node, "lineno", None))
    return O


_PURE_WITNESS = {
    "HTMLDocument._gen_html_tag_tree": "h = tags.html(); HTMLDocument(h, lang='en').render(); dict(h.attrs)",
    "HTMLDependency.as_dict": "d = HTMLDependency('a','1', script={'src': 'my file.js'}); d.as_dict(); d.as_dict()",
    "HTMLDocument._hoist_head_content": "h = tags.html(tags.head()); HTMLDocument(h).render(); HTMLDocument(h).render()",
}


def return_ownership(ctx: Ctx, O: Ownership, rule: str = "C08.copy") -> None:
    for q in ("Tag.tagify", "TagList.tagify"):
        sm = O.sums[q]
        where = f"{CORE}:{q}"
        ctx.check(bool(sm.ret_fresh), rule, f"{q} returns a new object on every path", where,
                  "; ".join(sm.ret_detail[:2]) or "returned object",
                  f"{q} can return an object that is not a fresh copy ({'; '.join(sm.ret_detail[:2])}): the result shares the tag / list with the original",
                  witness="x = div(); x.tagify() is x")
        ctx.check(bool(sm.ret_fields_fresh), rule, f"the attribute map and child list of {q}'s result are new containers", where,
                  "fields of the returned object", f"the object returned by {q} shares its attribute map or child list with the original")
    sm = O.sums.get("Tag.__copy__")
    ctx.require(sm is not None, "Tag.__copy__ vanished")
    # copy.copy(x): a new object whose containers (child list, attribute map, content list) are new containers
    for q in ("Tag.__copy__", "HTMLDocument.__copy__"):
        sm = O.sums.get(q)
        if sm is None:
            continue        # no __copy__ of its own: covered by the class it inherits from / the default
        where = f"{CORE}:{q}"
        ctx.check(bool(sm.ret_fresh) and bool(sm.ret_fields_fresh), rule, f"copy.copy() through {q} shares no container with the original", where,
                  "; ".join(sm.ret_detail[:2]) or "fields of the copy",
                  f"the object returned by {q} shares a container (child list, attribute map, content) with the original "
                  f"({'; '.join(sm.ret_detail[:2])}): adding to the copy changes the original",
                  witness="d2 = copy.copy(doc); d2.append(div()); doc.render()")


def copy_field_kinds(ctx: Ctx, I: Interp, rule: str = "C08.copy", cls: str = "Tag", kind: str = "TAG",
                     fields: Any = (("attrs", "TAGATTRDICT"), ("children", "TAGLIST"))) -> None:
    """copy(tag) is a Tag whose attribute map is still a TagAttrDict and whose child list is still a TagList (so that every
    operation of the original works on the copy - render()/tagify() hand such copies out); likewise copy(document) still has
    its content list."""
    prog = ctx.prog
    q = f"{cls}.__copy__"
    where = f"{CORE}:{q}"
    if not prog.has_function(CORE, q):
        return
    fn = prog.function(CORE, q)
    cfg = Config()
    cfg.opaque_all = True

    def mk(run: Any):
        s = SObj("self", {kind})
        return ({fn.args.args[0].arg: s}, s)

    from ..eval_call import is_field_copy
    if is_field_copy(prog, prog.core(), fn):
        ctx.ok(rule, f"{q} copies every instance field with copy(): field classes are preserved")
        return
    n = 0
    for l in I.run_function(CORE, q, mk, cfg):
        if l.kind != "return":
            continue
        n += 1
        v = l.value
        meta = v.meta if isinstance(v, SObj) else v.__dict__.get("meta", {}) if isinstance(v, SNew) else {}
        if (meta or {}).get("copy_mode") == "fieldwise":
            ctx.ok(rule, f"{q} copies every instance field with copy(): field classes are preserved")
            continue
        for fld, want in fields:
            fv = getattr(v, "attrs", {}).get(fld)
            ks = fv.kinds if isinstance(fv, SObj) else ({"TAGLIST"} if isinstance(fv, SNew) and fv.cls_name == "TagList" else {"TAGATTRDICT"} if isinstance(fv, SNew) and fv.cls_name == "TagAttrDict" else
                                                        {"DICT"} if isinstance(fv, SDict) else None)
            ctx.check(ks is not None and set(ks) <= {want}, rule, f"the copy's .{fld} is a {want.lower()}", where, f"copy.{fld} = {short(fv)}",
                      f"{q} gives the copy a `.{fld}` that is {short(fv)}, not an object of the original's class: methods of that class "
                      f"(two-argument update(), merging, normalisation) are missing on copies handed out by tagify()/render()",
                      witness="t = div(class_='a').tagify(); t.add_class('b')" if cls == "Tag" else "d2 = copy.copy(doc); d2.render()")
    ctx.min_count(f"{q} paths", n, 1)


def tag_tagify_shape(ctx: Ctx, I: Interp, rule: str = "C08.copy", fields: Any = None) -> None:
    """Tag.tagify(): the result is the copy with its child list expanded and nothing else changed (name, attributes and the
    whitespace flag of the copy are those of the original on every path)."""
    prog = ctx.prog
    where = f"{CORE}:Tag.tagify"
    fn = prog.function(CORE, "Tag.tagify")
    cfg = Config()
    cfg.opaque_all = True
    cfg.coarse_counts = True

    def mk(run: Any):
        s = SObj("self", {"TAG"})
        run.__dict__["s"] = s
        return ({fn.args.args[0].arg: s}, s)

    n = 0
    for l in I.run_function(CORE, "Tag.tagify", mk, cfg):
        if l.kind != "return":
            continue
        n += 1
        s = l.run.__dict__["s"]
        v = l.value
        stores = [e for e in l.effects if e.kind in ("store_attr", "del_attr") and e.target is v]
        def _same_field(e: Any) -> bool:
            # cp.f = self.f / cp.f = cp.f: the field keeps its value
            ao = (getattr(e.value, "meta", None) or {}).get("attr_of") if isinstance(e.value, SObj) else None
            if e.kind == "store_attr" and isinstance(e.value, SBool) and isinstance(e.value.atom, tuple) and e.value.atom[:1] == ("attr",) \
                    and e.value.atom[2] == e.key and e.value.atom[1] in (s.uid, getattr(v, "uid", None)):
                return True
            return e.kind == "store_attr" and ao is not None and ao[1] == e.key and (ao[0] is s or ao[0] is v)
        other = [e for e in stores if e.key != "children" and (fields is None or e.key in fields) and not _same_field(e)]
        labels = [str(lbl) for _, lbl in l.atoms][:3]
        ctx.check(not other, rule, "Tag.tagify changes nothing of the copy besides its child list" if fields is None else
                  f"Tag.tagify leaves {sorted(fields)} of the copy as they are", where,
                  f"path {labels}: stores {[e.key for e in stores]}",
                  f"Tag.tagify sets `{other[0].key if other else ''}` on the copy (path {labels}): the tree that render()/str() lay out differs from the original "
                  f"in more than the expansion of its tagifiable children", witness="str(span('a', div('b'))) vs span('a', div('b')).get_html_string()")
        if fields is not None:
            continue
        ch = [e for e in stores if e.key == "children"]
        okc = len(ch) == 1 and isinstance(ch[0].value, (SObj, SOpaque)) and _q_call(ch[0].value).endswith("TagList.tagify")
        ctx.check(okc, rule, "the copy's children are <children>.tagify()", where, f"children := {short(ch[0].value) if ch else None}",
                  "Tag.tagify does not replace the copy's child list by its tagify() result")
    ctx.min_count("Tag.tagify paths", n, 1)


def _q_call(v: Any) -> str:
    c = v.meta.get("call") if isinstance(v, SObj) else v.__dict__.get("call") if isinstance(v, SOpaque) else None
    return getattr((c or {}).get("func"), "qual", "") or ""


def render_uses_copy(ctx: Ctx, I: Interp) -> None:
    for cls in ("Tag", "TagList"):
        where = f"{CORE}:{cls}.render"
        cfg = Config()
        cfg.opaque_all = True

        def mk(run: Any, cls: str = cls):
            s = SObj("self", {"TAG" if cls == "Tag" else "TAGLIST"})
            run.__dict__["s"] = s
            return ({"self": s}, s)

        for l in I.run_function(CORE, f"{cls}.render", mk, cfg):
            s = l.run.__dict__["s"]
            calls = [e for e in l.effects if e.kind == "call" and isinstance(e.target, SFunc)]
            tag = [e for e in calls if e.target.qual.endswith(".tagify") and e.key is s]
            ctx.require(len(tag) >= 1, f"{cls}.render does not call self.tagify()")
            for e in calls:
                if e.target.qual.endswith((".get_dependencies", ".get_html_string")):
                    r = e.key
                    ok = isinstance(r, SObj) and r.meta.get("call") is not None and r.meta["call"]["func"].qual.endswith(".tagify") and r.meta["call"]["recv"] is s
                    ctx.check(ok, "C08.render", f"{cls}.render calls {e.target.qual.split('.')[-1]} on the tagified copy", where,
                              f"{e.target.qual.split('.')[-1]} on {short(r)}",
                              f"{cls}.render calls {e.target.qual.split('.')[-1]} on {short(r)}, not on the result of self.tagify(): dependencies / markup of "
                              f"expansions are missed", witness="div(obj_expanding_to_a_dependency).render()['dependencies']")


def delegation(ctx: Ctx, I: Interp) -> None:
    for cls in ("Tag", "TagList"):
        kind = "TAG" if cls == "Tag" else "TAGLIST"
        for meth in ("__repr__", "_repr_html_"):
            where = f"{CORE}:{cls}.{meth}"
            cfg = Config()
            cfg.opaque_all = True

            def mk(run: Any, kind: str = kind):
                s = SObj("self", {kind})
                run.__dict__["s"] = s
                return ({"self": s}, s)

            for l in I.run_function(CORE, f"{cls}.{meth}", mk, cfg):
                s = l.run.__dict__["s"]
                calls = [e for e in l.effects if e.kind == "call" and isinstance(e.target, SFunc)]
                ok = l.kind == "return" and len(calls) == 1 and calls[0].target.qual == f"{cls}.__str__" and calls[0].key is s \
                    and isinstance(l.value, SStr) and len(l.value.frags) == 1
                ctx.check(ok, "C08.same", f"{cls}.{meth} returns str(self)", where, f"returns {short(l.value)} via {[c.target.qual for c in calls]}",
                          f"{cls}.{meth} is not str(self): the four string forms of a tag can differ")
        where = f"{CORE}:{cls}.__str__"
        cfg = Config()
        cfg.opaque_all = True

        def mk2(run: Any, kind: str = kind):
            s = SObj("self", {kind})
            run.__dict__["s"] = s
            return ({"self": s}, s)

        for l in I.run_function(CORE, f"{cls}.__str__", mk2, cfg):
            s = l.run.__dict__["s"]
            calls = [e for e in l.effects if e.kind == "call" and isinstance(e.target, SFunc)]
            ok = len(calls) == 1 and calls[0].target.qual == "_render_tag_or_taglist" and calls[0].value and calls[0].value[0] is s
            ctx.check(ok, "C08.same", f"{cls}.__str__ is _render_tag_or_taglist(self)", where, f"calls {[c.target.qual for c in calls]}",
                      f"{cls}.__str__ does not render through _render_tag_or_taglist(self)")
    # _render_tag_or_taglist: in the default mode the result is exactly x.render()['html']
    where = f"{CORE}:_render_tag_or_taglist"
    fn = ctx.prog.function(CORE, "_render_tag_or_taglist")
    cfg = Config()
    cfg.opaque_all = True
    cfg.loop_effects = False

    def mk3(run: Any):
        x = SObj("x", {"TAG", "TAGLIST"})
        run.__dict__["x"] = x
        return ({fn.args.args[0].arg: x}, None)

    n = 0
    for l in I.run_function(CORE, "_render_tag_or_taglist", mk3, cfg):
        x = l.run.__dict__["x"]
        mode = None
        for a, v in l.atoms:
            if isinstance(a, tuple) and a[0] == "eq" and isinstance(a[2], tuple) and a[2][1] == "json":
                mode = "json" if str(v).startswith("==") else "default"
        ctx.require(mode is not None, "_render_tag_or_taglist does not branch on html_dependency_render_mode == 'json'")
        if mode != "default":
            continue
        n += 1
        v = l.value
        ok = False
        if isinstance(v, SStr) and len(v.frags) == 1 and v.frags[0].kind in ("OP", "OF"):
            ok = True
        item = _str_source(v)
        if not isinstance(item, SObj) and hasattr(item, "kind") and item.kind == "OF" and not item.c:
            cands = [o for o in l.run.elem_memo.values() if isinstance(o, SObj) and o.uid == item.a[0]]
            item = cands[0] if cands else item
        io = item.meta.get("item_of") if isinstance(item, SObj) else None
        ok = io is not None and io[1] == "html" and isinstance(io[0], SObj) and io[0].meta.get("call") is not None \
            and io[0].meta["call"]["func"].qual.endswith(".render") and io[0].meta["call"]["recv"] is x
        ctx.check(ok, "C08.same", "in the default mode str(x) is exactly x.render()['html']", where, f"default mode returns {short(v)}",
                  f"in the default dependency render mode str(x) is {short(v)}, not x.render()['html']")
    ctx.min_count("_render_tag_or_taglist default-mode paths", n, 1)


def _str_source(v: Any) -> Any:
    if isinstance(v, SObj):
        return v
    if isinstance(v, SStr) and len(v.frags) == 1:
        f = v.frags[0]
        if f.kind == "OP" and isinstance(f.b, dict) and "value" in f.b:
            return f.b["value"]
        if f.kind == "OF":
            return f
    return v


def equality(ctx: Ctx, I: Interp) -> str:
    prog = ctx.prog
    for cls, kind in (("Tag", "TAG"), ("TagList", "TAGLIST"), ("HTMLDependency", "HTMLDEP")):
        where = f"{CORE}:{cls}.__eq__"
        ci = prog.get_class(cls)
        m = prog.find_method(ci, "__eq__")
        if m is None or m[0].module.name != CORE:
            inh = f"{m[0].name}.__eq__" if m is not None else "object.__eq__ (identity)"
            ctx.fail("C08.eq", f"{CORE}:{cls}", f"{cls} has no __eq__ of its own: {inh} answers",
                     f"{cls} no longer defines __eq__, so == is {inh}: " + ("a UserList compares equal to any list or UserList with equal items, whatever its class"
                                                                          if m is not None and m[0].name == "UserList" else "structurally identical objects are no longer equal / kinds are not checked"),
                     witness="TagList('a') == ['a']" if cls == "TagList" else None)
            continue
        fn = m[1]
        cfg = Config()
        cfg.opaque_all = True

        def mk(run: Any, kind: str = kind, fn: Any = fn):
            s = SObj("self", {kind})
            o = SObj("other", ALL_KINDS)
            run.__dict__["o"] = (s, o)
            return ({fn.args.args[0].arg: s, fn.args.args[1].arg: o}, s)

        for l in I.run_function(CORE, f"{m[0].name}.__eq__", mk, cfg):
            s, o = l.run.__dict__["o"]
            calls = [e for e in l.effects if e.kind == "call" and isinstance(e.target, SFunc) and e.target.qual == "_equals_impl"]
            deleg = len(calls) == 1 and len(calls[0].value) == 2 and calls[0].value[0] is s and calls[0].value[1] is o \
                and isinstance(l.value, SBool) and not [a for a in l.atoms]
            if deleg:
                ctx.ok("C08.eq", f"{cls}.__eq__ delegates to _equals_impl(self, other)")
                _uniform_instance_dict(ctx, I, cls, kind)
                continue
            # a hand-written comparison: which fields does it look at?
            fields = _init_fields(ctx, I, cls)
            compared = set()
            for a, v in l.atoms:
                if isinstance(a, tuple) and a[0] in ("eq", "same", "cmp"):
                    for x in a[1:]:
                        x = x.v if isinstance(x, _K) else x
                        ao = x.meta.get("attr_of") if isinstance(x, SObj) else None
                        if ao is not None and ao[0] is s:
                            compared.add(ao[1])
                if isinstance(a, tuple) and a[0] == "attr" and a[1] == s.uid:
                    compared.add(a[2])
            for e in l.effects:
                if e.kind == "call":
                    for x in [e.key] + list(e.value or []):
                        ao = x.meta.get("attr_of") if isinstance(x, SObj) else None
                        if ao is not None and ao[0] is s:
                            compared.add(ao[1])
            if l.kind == "return" and l.value is False:
                continue
            missing = sorted(set(fields) - compared)
            ctx.check(not missing, "C08.eq", f"{cls}.__eq__ compares every constructor-determined field", where,
                      f"compares {sorted(compared)}; fields {sorted(fields)}",
                      f"{cls}.__eq__ can return a non-False result without comparing {missing}: objects that differ only there compare equal",
                      witness="div('x', _add_ws=False) == div('x')" if "add_ws" in missing else None)
    return _equals_impl_obligations(ctx, I)




def _uniform_instance_dict(ctx: Ctx, I: Interp, cls: str, kind: str) -> None:
    """_equals_impl walks x.__dict__ of its *left* operand: the comparison is complete and symmetric only if every
    instance carries the same set of instance attributes, i.e. every returning path of __init__ stores the same fields."""
    done = ctx.__dict__.setdefault("_uniform_done", set())
    if cls in done:
        return
    done.add(cls)
    prog = ctx.prog
    ci = prog.get_class(cls)
    m = prog.find_method(ci, "__init__")
    if m is None or not m[0].module.name.startswith("htmltools"):
        return
    fn = m[1]
    where = f"{CORE}:{m[0].name}.__init__"
    cfg = Config()
    cfg.opaque_all = True
    cfg.coarse_counts = True
    cfg.loop_effects = False

    def mk(run: Any):
        s = SObj("self", {kind}, origin="new")
        run.__dict__["s"] = s
        b: Dict[str, Any] = {fn.args.args[0].arg: s}
        return (b, s)

    sets: Dict[frozenset, Any] = {}
    for l in _run_init(I, m[0], fn, mk, cfg):
        if l.kind != "return":
            continue
        s_ = l.run.__dict__["s"]
        stored = frozenset(e.key for e in l.effects if e.kind == "store_attr" and e.target is s_)
        sets.setdefault(stored, l)
    ctx.require(bool(sets), f"{cls}.__init__: no returning path")
    allf = frozenset().union(*sets.keys())
    for st, l in sets.items():
        missing = sorted(allf - st)
        cond = [str(lbl) for _, lbl in l.atoms][:3]
        ctx.check(not missing, "C08.eq", f"every returning path of {cls}.__init__ stores the same instance attributes", where,
                  f"path {cond} stores {sorted(st)}",
                  f"on the path {cond} {cls}.__init__ does not store {missing} in the instance: _equals_impl compares the attributes found in the left "
                  f"operand's __dict__, so two objects that differ in {missing} compare equal from one side and unequal from the other",
                  witness="Tag('span', 'a') == Tag('span', 'a', _add_ws=False)  vs the reversed comparison" if "add_ws" in missing else None)


def _run_init(I: Interp, ci: Any, fn: Any, mk: Any, cfg: Config) -> List[Any]:
    """Run __init__ with every parameter bound to a value of the kinds its annotation allows."""
    def mk2(run: Any):
        b, s = mk(run)
        a = fn.args
        for p in a.args[1:] + a.kwonlyargs:
            try:
                ks = run.ev.kinds_from_annotation(p.annotation, ci.module) if p.annotation is not None else None
            except Exception:
                ks = None
            if ks and ks <= frozenset({"TRUE", "FALSE"}):
                b[p.arg] = SBool(("param", p.arg))
            else:
                b[p.arg] = SObj(p.arg, ks or ANY_VALUE_KINDS)
        if a.vararg:
            o = SObj(a.vararg.arg, {"TUPLE"})
            b[a.vararg.arg] = o
        if a.kwarg:
            b[a.kwarg.arg] = SObj(a.kwarg.arg, {"DICT"})
        return b, s
    return I.run_function(CORE, f"{ci.name}.__init__", mk2, cfg)


def _init_fields(ctx: Ctx, I: Interp, cls: str) -> List[str]:
    """Instance fields assigned in __init__ from its parameters."""
    prog = ctx.prog
    ci = prog.get_class(cls)
    m = prog.find_method(ci, "__init__")
    out = []
    if m is None:
        return out
    fn = m[1]
    params = {a.arg for a in fn.args.args[1:] + fn.args.kwonlyargs} | ({fn.args.vararg.arg} if fn.args.vararg else set()) | ({fn.args.kwarg.arg} if fn.args.kwarg else set())
    local_from_param: Dict[str, bool] = {p: True for p in params}
    for st in ast.walk(fn):
        if isinstance(st, ast.Assign) and len(st.targets) == 1 and isinstance(st.targets[0], ast.Name):
            local_from_param[st.targets[0].id] = any(isinstance(n, ast.Name) and local_from_param.get(n.id) for n in ast.walk(st.value))
    for st in ast.walk(fn):
        if isinstance(st, (ast.Assign, ast.AnnAssign)):
            tg = st.targets if isinstance(st, ast.Assign) else [st.target]
            for t in tg:
                if isinstance(t, ast.Attribute) and isinstance(t.value, ast.Name) and t.value.id == fn.args.args[0].arg and st.value is not None:
                    dep = any(isinstance(n, ast.Name) and local_from_param.get(n.id) for n in ast.walk(st.value))
                    if dep and t.attr not in out:
                        out.append(t.attr)
    return out


def _equals_impl_obligations(ctx: Ctx, I: Interp) -> str:
    prog = ctx.prog
    where = f"{CORE}:_equals_impl"
    fn = prog.function(CORE, "_equals_impl")
    ps = [a.arg for a in fn.args.args]
    ctx.require(len(ps) == 2, "_equals_impl signature changed")

    def mk(run: Any):
        x = SObj("x", {"TAG"})
        y = SObj("y", ALL_KINDS)
        run.__dict__["o"] = (x, y)
        return ({ps[0]: x, ps[1]: y}, None)

    cfg = Config()
    cfg.loop_effects = False
    got_type_false = got_true = got_neq = False
    dict_form = False
    for l in I.run_function(CORE, "_equals_impl", mk, cfg):
        x, y = l.run.__dict__["o"]
        ty = [v for a, v in l.atoms if isinstance(a, tuple) and a[0] == "isinstance-type-of"]
        if ty == [False]:
            got_type_false = True
            ctx.check(l.kind == "return" and l.value is False and len(l.atoms) == 1, "C08.eq", "objects of a different kind are unequal", where,
                      f"not isinstance(y, type(x)) -> {short(l.value)}", "comparison with an object of another class does not return False")
            continue
        if not ty:
            ctx.fail("C08.eq", where, "no isinstance(y, type(x)) test on a path", "_equals_impl can compare objects of different kinds as equal",
                     witness="div() == 'x'")
            continue
        loops = l.run.loops
        if not loops:
            # `x.__dict__ == y.__dict__`: every instance field of both objects takes part (stricter than the loop over x's keys)
            rest0 = [(a, v) for a, v in l.atoms if not (isinstance(a, tuple) and a[0] == "isinstance-type-of")]
            okd = False
            if len(rest0) == 1 and isinstance(rest0[0][0], tuple) and rest0[0][0][0] == "eq" and len(rest0[0][0]) == 3:
                a_, b_ = rest0[0][0][1], rest0[0][0][2]
                a_ = a_.v if isinstance(a_, _K) else a_
                b_ = b_.v if isinstance(b_, _K) else b_
                owners = [getattr(d_, "__dict__", {}).get("fields_of") for d_ in (a_, b_)]
                okd = isinstance(a_, SDict) and isinstance(b_, SDict) and {id(o_) for o_ in owners} == {id(x), id(y)} \
                    and l.kind == "return" and l.value is rest0[0][1]
            ctx.require(okd, "_equals_impl: expected one loop over the fields")
            dict_form = True
            got_true = got_true or l.value is True
            got_neq = got_neq or l.value is False
            ctx.check(True, "C08.eq", "the instance dictionaries are compared as a whole", where, f"returns x.__dict__ == y.__dict__ ({l.value})", "")
            continue
        ctx.require(len(loops) == 1, "_equals_impl: expected one loop over the fields")
        it = loops[0].iter_value
        d = getattr(it, "iter_descr", None)
        base = d[1] if d is not None and d[0] in ("keys", "items") else it
        over_x = isinstance(base, SDict) and base.__dict__.get("fields_of") is x
        ctx.check(over_x, "C08.eq", "the comparison walks every key of x.__dict__ (no filter, no fixed list)", where, f"iterates {short(it)}",
                  f"_equals_impl iterates {short(it)} instead of every instance field of x: a field that is not listed is ignored by ==")
        rest = [(a, v) for a, v in l.atoms if not (isinstance(a, tuple) and a[0] in ("isinstance-type-of", "loop"))]
        if l.kind == "return" and l.value is True:
            got_true = True
            ctx.check(not rest, "C08.eq", "True is returned only after the loop is exhausted", where, f"returns True under {rest}",
                      "_equals_impl returns True before all fields were compared")
        elif l.kind == "return" and l.value is False:
            eqs = [(a, v) for a, v in rest if isinstance(a, tuple) and a[0] == "eq"]
            other = [(a, v) for a, v in rest if (a, v) not in eqs]
            ok = len(eqs) == 1 and eqs[0][1] is False and not other
            if ok:
                l_, r_ = eqs[0][0][1], eqs[0][0][2]
                l_ = l_.v if isinstance(l_, _K) else l_
                r_ = r_.v if isinstance(r_, _K) else r_
                gl, gr = getattr(l_, "__dict__", {}).get("getattr"), getattr(r_, "__dict__", {}).get("getattr")
                ok = gl is not None and gr is not None and {id(gl[0]), id(gr[0])} == {id(x), id(y)} and gl[1] is gr[1]
                got_neq = got_neq or ok
            ctx.check(ok, "C08.eq", "a field that differs (getattr(x,k) != getattr(y,k)) makes the objects unequal", where,
                      f"returns False under {[a for a, _ in rest]}",
                      f"_equals_impl decides inequality under {[a for a, _ in rest]}: some field is skipped or compared differently",
                      witness="div(_add_ws=False) == div()")
        else:
            ctx.fail("C08.eq", where, f"path returns {short(l.value)}", "_equals_impl returns a non-boolean / raises")
    ctx.check(got_type_false and got_true and got_neq, "C08.eq", "_equals_impl has the three outcomes (other kind / field differs / all equal)", where,
              f"type-false={got_type_false} true={got_true} neq={got_neq}", "_equals_impl lacks one of: different kind -> False, differing field -> False, else True")
    return "dict" if dict_form else "loop"


def transient_fields(ctx: Ctx, I: Interp, eq_form: str = "loop") -> None:
    """C08.6: a field that __init__ sets to a constant and another method overwrites must be reset when the block ends."""
    prog = ctx.prog
    ci = prog.get_class("Tag")
    init = ci.methods.get("__init__")
    ctx.require(init is not None, "Tag.__init__ vanished")
    self_name = init.args.args[0].arg
    trans: Dict[str, Any] = {}
    for st in ast.walk(init):
        if isinstance(st, (ast.Assign, ast.AnnAssign)) and st.value is not None and isinstance(st.value, ast.Constant):
            tg = st.targets if isinstance(st, ast.Assign) else [st.target]
            for t in tg:
                if isinstance(t, ast.Attribute) and isinstance(t.value, ast.Name) and t.value.id == self_name:
                    trans[t.attr] = st.value.value
    writers: Dict[str, List[str]] = {}
    for mn, fn in ci.methods.items():
        if mn == "__init__":
            continue
        for st in ast.walk(fn):
            tg = st.targets if isinstance(st, ast.Assign) else [st.target] if isinstance(st, (ast.AnnAssign, ast.AugAssign)) else []
            for t in tg:
                for tt in (t.elts if isinstance(t, ast.Tuple) else [t]):
                    if isinstance(tt, ast.Attribute) and isinstance(tt.value, ast.Name) and tt.value.id == fn.args.args[0].arg and tt.attr in trans:
                        writers.setdefault(tt.attr, []).append(mn)
    if eq_form == "dict":
        # == compares the instance dictionaries directly: a field that lives on the class (absent from a fresh tag's __dict__)
        # and is assigned on the instance by a method makes a used tag differ from the same tag built directly, unless the key is
        # deleted again when the block ends
        for f, e in ci.class_consts.items():
            if f in trans or f in ci.methods or not isinstance(e, ast.Constant):
                continue
            ws = []
            dels = []
            for mn, fn in ci.methods.items():
                if mn == "__init__":
                    continue
                for st in ast.walk(fn):
                    if isinstance(st, ast.Attribute) and st.attr == f and isinstance(st.value, ast.Name) and st.value.id == fn.args.args[0].arg:
                        if isinstance(st.ctx, ast.Store):
                            ws.append(mn)
                        elif isinstance(st.ctx, ast.Del):
                            dels.append(mn)
            if ws:
                ctx.check("__exit__" in dels and "__exit__" not in ws, "C08.transient",
                          f"Tag.{f} (a class-level default) is absent from the instance dictionary again when a `with` block has ended",
                          f"{CORE}:Tag.{sorted(set(ws))[-1]}", f"self.{f} assigned in {sorted(set(ws))}, deleted in {sorted(set(dels))}",
                          f"Tag.{f} is a class-level default (not in a fresh tag's __dict__) but {sorted(set(ws))} assign it on the instance and "
                          f"_equals_impl compares x.__dict__ == y.__dict__: a tag that has been used as a context manager never equals the same "
                          f"tag built directly", witness="a = div('x')\nwith a: pass\na == div('x')")
    for f, const in trans.items():
        ws = sorted(set(writers.get(f, [])))
        if not ws:
            continue
        where = f"{CORE}:Tag.__exit__"
        if "__enter__" in ws:
            fn = prog.function(CORE, "Tag.__exit__")
            ps = [a.arg for a in fn.args.args]

            def mk(run: Any, f: str = f):
                s = SObj("self", {"TAG"})
                s.attrs[f] = SObj("saved", {"CALLABLE"})
                run.__dict__["s"] = s
                b = {ps[0]: s}
                for p in ps[1:]:
                    b[p] = SObj(p, {"NONE", "OTHER"})
                return (b, s)

            for l in I.run_function(CORE, "Tag.__exit__", mk, Config()):
                s = l.run.__dict__["s"]
                st = [e for e in l.effects if e.kind == "store_attr" and e.target is s and e.key == f]
                last = st[-1].value if st else "<never reset>"
                ctx.check(bool(st) and last is const or (bool(st) and last == const and not isinstance(last, Sym)), "C08.transient",
                          f"Tag.{f} is back at its constructor value ({const!r}) when a `with` block has ended", where,
                          f"self.{f} after __exit__: {short(last)}",
                          f"Tag.__exit__ leaves self.{f} = {short(last)} (constructor value {const!r}): == compares every instance field, so a tag "
                          f"that has been used as a context manager never equals the same tag built directly",
                          witness="a = div('x')\nwith a: pass\na == div('x')")
        for w in ws:
            if w not in ("__enter__", "__exit__"):
                ctx.info(f"Tag.{w} writes the transient field {f}")


def check(ctx: Ctx) -> None:
    ctx.explanation = (
        "Engine B (ownership/effects over Engine A traces, one function at a time with callee summaries to a fix-point): for "
        "each read-only entry point (tagify, render, str/repr/_repr_html_, get_html_string, get_dependencies, copy, == of "
        "Tag/TagList; HTMLDocument.render/save_html/copy; HTMLDependency as_html_tags/as_dict/source_path_map/serialize/"
        "copy_to/str/repr/==) no mutation site on any call path has a target that existed before the call (receiver, argument, "
        "anything read out of them, module or process state); copies follow each class's own __copy__ as read from the source. "
        "tagify(): the result is a new object with new attribute map and child list on every path, and the loop-body table of "
        "TagList.tagify replaces every tagifiable child by its tagify() result and every metadata node by copy(child). "
        "render() calls get_dependencies/get_html_string on the tagified copy; repr/_repr_html_ are str(self) and str is "
        "render()['html'] in the default mode; == delegates to _equals_impl, which rejects other kinds and compares every key of "
        "x.__dict__; a transient field written by __enter__ is reset by __exit__ on every path.")
    ctx.trust("copy.copy/deepcopy semantics; UserList.__copy__ as parsed from the stdlib", "Engine A abstract semantics")
    ctx.assume("user-supplied tagify()/_repr_html_()/__str__ are pure", "typing.cast claims are correct",
               "functions of htmltools._jsx are a boundary for the ownership analysis here (C20 runs it on them); the visitor table of JSXTag.tagify is shared")
    I = Interp(ctx.prog)
    ok = tagify_table(ctx, I)
    O = purity(ctx, ok)
    from .c20 import purity as jsx_purity     # JSXTag.tagify()/str()/repr() are read-only operations too
    jsx_purity(ctx, rule="C08.pure")
    return_ownership(ctx, O)
    tag_tagify_shape(ctx, I)
    copy_field_kinds(ctx, I)
    copy_field_kinds(ctx, I, cls="HTMLDocument", kind="HTMLDOC", fields=(("_content", "TAGLIST"), ("_html_attr_args", "DICT")))
    render_uses_copy(ctx, I)
    delegation(ctx, I)
    eq_form = equality(ctx, I)
    transient_fields(ctx, I, eq_form)
    # JSXTag.tagify(): the per-node table of its visitor (every mutable node copied or expanded, metadata nodes included);
    # the ownership part of the JSX conversion stays with C20
    from .c20 import visitor_table, walker_coverage
    walker_coverage(ctx, I)
    visitor_table(ctx, I)
