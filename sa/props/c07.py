"""C07 - metadata nodes leave no trace in the markup (DESIGN 4, C05-C07)."""

from __future__ import annotations

from ..layout import META_KINDS, sib_apply_all
from ..rendercheck import (TG, TL, describe, fmt, frames, model, preconditions, strip_names, walk, _state_text)
from ..report import Ctx


def check(ctx: Ctx) -> None:
    ctx.explanation = (
        "Over the model extracted by Engine A: every metadata-kind row of the sibling transducer emits nothing and "
        "leaves every loop-carried state variable unchanged, in every reachable state (including block-in-inline "
        "contexts); every element-frame scenario yields the same tokens whatever the number and position of metadata "
        "children (n_meta in {0,1,>=2}, metadata first or not). Decides the three places where metadata is skipped "
        "during rendering; render()/str() expand the tree with tagify() first, so the expansion pass is included: its "
        "splices never disturb positions it has not visited, and a metadata child is replaced by copy(child) in its own slot "
        "(rules C09.splice / C08.copy, shared with C09 and C08). Dependency collection is C10.")
    ctx.trust("Engine A abstract semantics (sa/interp.py, sa/eval_*.py)")
    m = model(ctx)
    preconditions(ctx, m)
    n = 0
    for step in walk(m, block_in_inline=True):
        ch = step["child"]
        if ch.kind not in META_KINDS:
            continue
        n += 1
        what = describe(step)
        ctx.require(bool(step["rows"]), f"no path of the sibling loop covers: {what}")
        for r in step["rows"]:
            if r.outcome == "raise":
                ctx.fail("C07.row", TL, what, f"a metadata child makes rendering raise {r.exc}")
                continue
            _order(ctx, r, what)
            ctx.check(r.tokens == [], "C07.row", what + " emits nothing", TL, what,
                      f"a metadata child emits {fmt(r.tokens)}", witness=f"state {_state_text(step)}")
            nxt = sib_apply_all(m, r, step["state"], ch, step["params"])
            ctx.check(all(s == step["state"] for s in nxt), "C07.row", what + " leaves the layout state unchanged", TL,
                      what + " [state]",
                      f"a metadata child changes the layout state {step['state']} -> {nxt}: what follows it is laid out differently",
                      witness=f"state {_state_text(step)}")
    ctx.count("metadata steps examined", n)
    ctx.min_count("metadata steps", n, 2)
    groups = {}
    for sc, hits in frames(m):
        ctx.require(bool(hits), f"no path of Tag.get_html_string covers frame scenario {sc!r}")
        for leaf, toks, free in hits:
            # conditions that have nothing to do with metadata (free atoms) are part of the comparison key
            fk = tuple(sorted((repr(a[0] if not isinstance(a, tuple) else (a[0],) + tuple(x for x in a[2:] if not isinstance(x, int))), str(v))
                              for a, v in free
                              if not (isinstance(a, tuple) and a[0] in ("count", "first-is-meta", "isinstance", "kind", "kindgroup", "len-cmp", "is"))))
            key = (sc.n_vis, sc.name, sc.add_ws, sc.single_kind, fk)
            groups.setdefault(key, []).append((sc, strip_names(toks), free))
    nf = 0
    for key, items in groups.items():
        base = [i for i in items if i[0].n_meta == 0]
        if not base:
            continue      # a condition that only arises with metadata present; covered by the other groups' comparison
        ref = base[0][1]
        for sc, toks, free in items:
            nf += 1
            ctx.check(toks == ref, "C07.frame", f"frame {sc!r} equals the metadata-free frame", TG, f"frame: {sc!r}",
                      f"metadata children change the element's markup: {fmt(toks)} instead of {fmt(ref)}"
                      + (f" (under extra condition {free[0][0]})" if free else ""))
    ctx.count("frame comparisons", nf)
    # the expansion pass that precedes every render()/str(): positions of non-metadata children are preserved
    from ..interp import Interp
    from .c08 import tagify_table
    from .c09 import splice_safety, splice_shape
    I = Interp(ctx.prog)
    splice_safety(ctx)
    splice_shape(ctx, I)
    tagify_table(ctx, I)
    # a metadata node displayed inside `with tag:` reaches the tag as the object itself (not as its markup)
    from .c17 import wrapper_table
    wrapper_table(ctx, I, rule="C07.hook", only=META_KINDS)
    # a component's JavaScript: metadata nodes among its children contribute nothing (and do not make the conversion fail)
    from ..report import SharedCtx
    from .c20 import render_table
    render_table(SharedCtx(ctx, lambda r: "C07.jsx" if r == "C20.meta" else None), I)


def _order(ctx: Ctx, r, what: str) -> None:
    """The sibling loop recognises a metadata child before it asks any structural (Protocol) question about it: a subclass of
    MetadataNode is free to define _repr_html_ (a notebook preview) or tagify, and would otherwise be written into the markup."""
    if r.leaf is None or r.element is None:
        return
    uid = r.element.uid
    early = []
    for atom, lbl in r.leaf.atoms:
        if not (isinstance(atom, tuple) and len(atom) >= 3 and atom[0] == "isinstance" and atom[1] == uid):
            continue
        names = str(atom[2]).split("|")
        if any(n in ("MetadataNode", "HTMLDependency") for n in names):
            break
        for n in names:
            ci = ctx.prog.get_class(n)
            if ci is not None and ci.is_protocol():
                early.append(n)
    ctx.check(not early, "C07.order", what + ": recognised as metadata before any Protocol test", TL, what + " [order]",
              f"the sibling loop tests the child against the structural protocol(s) {sorted(set(early))} before it tests for MetadataNode: "
              f"a MetadataNode subclass that defines the protocol's method is rendered into the markup instead of being skipped",
              witness="class Dep(MetadataNode):\n    def _repr_html_(self): return '<i>preview</i>'\nTagList('a', Dep(), 'b').get_html_string()")


def thorough(ctx: Ctx) -> None:
    """Composed model: inserting a metadata leaf at any position of any enumerated tree leaves the tokens unchanged."""
    from ..compose import Composer, enumerate_trees
    m = model(ctx)
    comp = Composer(m)
    n = bad = 0
    for kind, t in enumerate_trees(2, c06_only=False):
        if kind != "tag":
            continue
        kids = t[3]
        if any(k == ("L", "META") for k in kids):
            continue
        ref = comp.render_tag(t, 1, True, True)
        for pos in range(len(kids) + 1):
            for reps in (1, 2):
                t2 = (t[0], t[1], t[2], kids[:pos] + (("L", "META"),) * reps + kids[pos:])
                n += 1
                got = comp.render_tag(t2, 1, True, True)
                if got != ref:
                    bad += 1
                    if bad <= 3:
                        ctx.fail("C07.compose", TG, f"metadata inserted at position {pos} of {t!r}", f"rendering changes from {ref} to {got}")
    ctx.count("metadata insertions composed", n)
    if not bad:
        ctx.ok("C07.compose", f"{n} metadata insertions leave the composed rendering unchanged")
