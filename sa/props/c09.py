"""C09 - tagifiable objects render as their expansion, spliced in place (DESIGN 4, C09)."""

from __future__ import annotations

import ast
from typing import Any, Dict, List, Optional, Tuple

from ..eval_stmt import loops_of
from ..frontend import norm
from ..interp import Config, Interp
from ..layout import META_KINDS
from ..rendercheck import TG, TL, describe, fmt, frames, model, walk
from ..report import Ctx
from ..values import (ALL_KINDS, SBool, SDict, SFunc, SInt, SList, SNew, SObj, SOpaque, SSplat, SStr, Sym, Unmodelled, short)
from .c08 import _derives_from_tagify, render_uses_copy, tagify_table, tag_tagify_shape

CORE = "htmltools._core"
TLT = f"{CORE}:TagList.tagify"


def _is_desc_range(it: ast.expr) -> Optional[bool]:
    """True: descending index iteration; False: ascending; None: not an index range."""
    if isinstance(it, ast.Call) and isinstance(it.func, ast.Name):
        if it.func.id == "reversed" and len(it.args) == 1:
            inner = _is_desc_range(it.args[0])
            return None if inner is None else (not inner)
        if it.func.id in ("list", "tuple") and len(it.args) == 1 and not it.keywords:
            return _is_desc_range(it.args[0])          # a snapshot of the same (index, element) pairs
        if it.func.id == "enumerate" and 1 <= len(it.args) <= 2:
            return False
        if it.func.id == "range":
            if len(it.args) == 1:
                return False
            if len(it.args) == 3 and isinstance(it.args[2], ast.UnaryOp) and isinstance(it.args[2].op, ast.USub):
                return True
            if len(it.args) in (2, 3):
                return False
    return None


def splice_safety(ctx: Ctx) -> None:
    prog = ctx.prog
    fn = prog.function(CORE, "TagList.tagify")
    loops = loops_of(fn)
    ctx.require(len(loops) >= 1, "TagList.tagify has no loop")
    lp = loops[0]
    slice_stores = [n for n in ast.walk(lp) if isinstance(n, ast.Assign) and any(isinstance(t, ast.Subscript) and isinstance(t.slice, ast.Slice) for t in n.targets)]
    if isinstance(lp, ast.For):
        d = _is_desc_range(lp.iter)
        if d is True:
            ctx.ok("C09.splice", "index loop runs from the last index down: length-changing splices do not disturb unvisited positions")
        elif d is False:
            ctx.check(not slice_stores, "C09.splice", "an ascending index loop over a pre-computed range must not change the list length", TLT,
                      f"for ... in {norm(lp.iter)} with {norm(slice_stores[0]) if slice_stores else ''}",
                      "TagList.tagify walks indices upwards over range(len(...)) computed before the loop while splicing expansions of a different "
                      "length into the list: later children are skipped or visited twice",
                      witness="TagList(A(), B()).tagify() where A().tagify() returns TagList('x', 'y')")
        else:
            # iterating the elements themselves: results must go to a new list
            stores_to_iter = [n for n in ast.walk(lp) if isinstance(n, ast.Assign) and any(isinstance(t, ast.Subscript) and ast.unparse(t.value) == ast.unparse(lp.iter) for t in n.targets)]
            ctx.check(not stores_to_iter, "C09.splice", "a loop over the elements appends to a fresh list (does not edit the list it iterates)", TLT,
                      f"for ... in {norm(lp.iter)}", "TagList.tagify edits the list it is iterating over")
    else:
        ctx.require(isinstance(lp, ast.While), "TagList.tagify: loop form not modelled")
        if _is_countdown(fn, lp):
            ctx.ok("C09.splice", "index loop runs from the last index down: length-changing splices do not disturb unvisited positions")
            return
        # explicit index loop: after a splice of n nodes the index must advance by exactly n
        advances = [n for n in ast.walk(lp) if isinstance(n, ast.AugAssign) and isinstance(n.op, ast.Add) and isinstance(n.target, ast.Name)]
        ctx.require(bool(slice_stores) and bool(advances), "TagList.tagify: explicit index loop without recognisable splice/advance")
        for st in slice_stores:
            # the advance in the same block as the splice
            blk = _enclosing_block(lp, st)
            adv = [a for a in advances if blk is not None and any(a is x for b in blk for x in ast.walk(b))]
            ctx.require(bool(adv), "TagList.tagify: no index advance next to the splice")
            val = st.value
            for a in adv:
                e = a.value
                exact = isinstance(e, ast.Call) and isinstance(e.func, ast.Name) and e.func.id == "len" and len(e.args) == 1 \
                    and (ast.unparse(e.args[0]) == ast.unparse(val) or _same_local(blk, e.args[0], val))
                ctx.check(exact, "C09.splice", "after splicing n nodes at i the index advances by exactly n", TLT, f"{norm(st)}; {norm(a)}",
                          f"after `{norm(st)}` the index advances by `{ast.unparse(e)}` instead of the number of spliced nodes: when an expansion is "
                          f"empty (or longer than assumed) the next sibling is skipped / re-visited and stays un-expanded",
                          witness="TagList(Empty(), T()).tagify() where Empty().tagify() returns TagList()")


def _is_countdown(fn: ast.AST, lp: ast.While) -> bool:
    """`i = len(x)` ... `while i > 0: i -= 1; BODY` with no other assignment to i inside the loop."""
    t = lp.test
    if not (isinstance(t, ast.Compare) and len(t.ops) == 1 and isinstance(t.left, ast.Name) and isinstance(t.comparators[0], ast.Constant)):
        return False
    i = t.left.id
    if not ((isinstance(t.ops[0], ast.Gt) and t.comparators[0].value == 0) or (isinstance(t.ops[0], ast.GtE) and t.comparators[0].value == 1)):
        return False
    if lp.orelse or not lp.body:
        return False
    first = lp.body[0]
    if not (isinstance(first, ast.AugAssign) and isinstance(first.op, ast.Sub) and isinstance(first.target, ast.Name) and first.target.id == i
            and isinstance(first.value, ast.Constant) and first.value.value == 1):
        return False
    stores = [n for n in ast.walk(lp) if isinstance(n, ast.Name) and n.id == i and isinstance(n.ctx, ast.Store)]
    if len(stores) != 1:
        return False
    # initialised from len(...) right before the loop
    for blk in [getattr(n, f, None) for n in ast.walk(fn) for f in ("body", "orelse")]:
        if isinstance(blk, list) and any(x is lp for x in blk):
            k = [j for j, x in enumerate(blk) if x is lp][0]
            for prev in reversed(blk[:k]):
                if any(isinstance(n, ast.Name) and n.id == i for n in ast.walk(prev)):
                    return isinstance(prev, ast.Assign) and len(prev.targets) == 1 and isinstance(prev.targets[0], ast.Name) and prev.targets[0].id == i \
                        and isinstance(prev.value, ast.Call) and isinstance(prev.value.func, ast.Name) and prev.value.func.id == "len" and len(prev.value.args) == 1
    return False


def _enclosing_block(root: ast.AST, st: ast.stmt) -> Optional[List[ast.stmt]]:
    for n in ast.walk(root):
        for fld in ("body", "orelse"):
            b = getattr(n, fld, None)
            if isinstance(b, list) and any(x is st for x in b):
                return b
    return None


def _same_local(blk: Optional[List[ast.stmt]], a: ast.expr, b: ast.expr) -> bool:
    """`n = f(x); cp[i:i+1] = n; i += len(n)`"""
    return isinstance(a, ast.Name) and isinstance(b, ast.Name) and a.id == b.id


def splice_shape(ctx: Ctx, I: Interp) -> None:
    """A TagList result replaces exactly the one element, with its normalised nodes; other results are stored at i."""
    cfg = Config()
    cfg.opaque_all = True
    cfg.stop_at_loop = ("TagList.tagify", 0)

    def mk(run: Any):
        s = SObj("self", {"TAGLIST"})
        return ({"self": s}, s)

    n = 0
    for l in I.run_function(CORE, "TagList.tagify", mk, cfg):
        rec = getattr(l.run, "stop_loop_record", None)
        if rec is None:
            continue
        start = rec.__dict__.get("body_effect_start", 0)
        from .c08 import builder_adds
        adds = builder_adds(l.effects[start:])
        if adds and not any(e.kind in ("store_item", "store_slice") and not isinstance(e.target, SList) for e in l.effects[start:]):
            # builder form: a TagList expansion contributes its normalised nodes, any other expansion itself
            tl = [lbl for a, lbl in l.atoms if isinstance(a, tuple) and a[0] == "isinstance" and "TagList" in str(a[2])]
            for a in adds:
                many = a.get("many")
                if many is not None:
                    n += 1
                    san = isinstance(many, SObj) and (many.meta.get("call") or {}).get("func") is not None and many.meta["call"]["func"].qual == "_tagchilds_to_tagnodes"
                    ctx.check(san and tl == ["isinstance TagList"], "C09.splice", "a TagList expansion contributes its normalised nodes", TLT,
                              f"adds all of {short(many)} under {tl}", f"the nodes added for an expansion are {short(many)} (under {tl}): not the normalised nodes of a returned TagList")
                elif "one" in a:
                    ctx.check(tl != ["isinstance TagList"], "C09.splice", "a non-list expansion takes the object's place", TLT, f"adds {short(a['one'])} under {tl}",
                              "a TagList expansion is stored as a single nested element instead of being spliced")
            continue
        for e in l.effects[start:]:
            if e.kind == "store_slice":
                n += 1
                lo, hi = e.key
                one = isinstance(lo, SInt) and isinstance(hi, SInt) and lo.base == hi.base and hi.off - lo.off == 1
                ctx.check(one, "C09.splice", "a TagList expansion replaces exactly the one element (cp[i:i+1] = ...)", TLT,
                          f"cp[{short(lo)}:{short(hi)}] = {short(e.value)}",
                          f"the expansion is spliced over [{short(lo)}:{short(hi)}] instead of exactly the expanded element: the object itself stays in "
                          f"the list or a neighbour is overwritten", witness="TagList('a', T(), 'b').tagify()")
                v = e.value
                san = isinstance(v, SObj) and (v.meta.get("call") or {}).get("func") is not None and v.meta["call"]["func"].qual == "_tagchilds_to_tagnodes"
                ctx.check(san, "C09.splice", "the spliced nodes are the normalised nodes of the returned TagList", TLT, f"spliced value {short(v)}",
                          f"the spliced value is {short(v)}, not _tagchilds_to_tagnodes(<returned TagList>)")
                # only on the path where the result is a TagList
                tl = [lbl for a, lbl in l.atoms if isinstance(a, tuple) and a[0] == "isinstance" and "TagList" in str(a[2])]
                ctx.check(tl == ["isinstance TagList"], "C09.splice", "splicing happens exactly when the expansion is a TagList", TLT,
                          f"splice under {tl}", "an expansion is spliced although it is not a TagList (or a TagList expansion is stored as one element)")
            elif e.kind == "store_item" and isinstance(e.target, SObj) and e.target.meta.get("copy_of") is not None:
                tl = [lbl for a, lbl in l.atoms if isinstance(a, tuple) and a[0] == "isinstance" and "TagList" in str(a[2])]
                ctx.check(tl != ["isinstance TagList"], "C09.splice", "a non-list expansion takes the object's place", TLT, f"cp[i] = {short(e.value)} under {tl}",
                          "a TagList expansion is stored as a single nested element instead of being spliced")
    ctx.min_count("splice sites", n, 1)


def raise_path(ctx: Ctx) -> None:
    m = model(ctx)
    n = 0
    for step in walk(m, block_in_inline=True):
        ch = step["child"]
        if ch.kind != "TAGIFIABLE_ONLY":
            if ch.kind in ("TAGIFIABLE_REPR", "JSXTAG"):
                for r in step["rows"]:
                    ctx.check(r.outcome != "raise", "C09.raise", "an object that is also self-rendering is rendered via _repr_html_", TL,
                              describe(step), f"a tagifiable object that also has _repr_html_ makes rendering raise {r.exc}")
            continue
        n += 1
        what = describe(step)
        ctx.require(bool(step["rows"]), f"no path of the sibling loop covers: {what}")
        for r in step["rows"]:
            own = [t for t in r.tokens if t[0] in ("TEXT", "TAG")]
            ctx.check(r.outcome == "raise" and r.exc == "RuntimeError" and not own, "C09.raise", what + " raises RuntimeError, emitting nothing for it", TL, what + f": {r.outcome}",
                      f"an un-expanded tagifiable object is rendered as {fmt(r.tokens)} ({r.outcome}) instead of raising: markup is emitted for "
                      f"something that was never expanded", witness="TagList(obj_with_tagify_only).get_html_string()")
    ctx.min_count("un-tagified rows", n, 2)
    # the frame must hand every non-text child list to the sibling loop (where the raise lives)
    for sc, hits in frames(m):
        if sc.n_vis == 0 or (sc.n_vis == 1 and sc.single_kind in ("STR", "JSXEXPR", "HTMLSTR")):
            continue
        for leaf, toks, free in hits:
            has = any(t[0] == "CHILDREN" for t in toks)
            ctx.check(has, "C09.raise", f"frame {sc!r} renders its children through the sibling loop", TG, f"frame: {sc!r}",
                      f"an element with children ({sc!r}) is written as {fmt(toks)} without rendering its children: an un-expanded object below it is "
                      f"silently dropped instead of raising", witness="tags.br(obj_with_tagify_only).get_html_string()")


def document_pipeline(ctx: Ctx, I: Interp) -> None:
    prog = ctx.prog
    where = f"{CORE}:HTMLDocument._gen_html_tag_tree"
    fn = prog.function(CORE, "HTMLDocument._gen_html_tag_tree")
    ps = [a.arg for a in fn.args.args + fn.args.kwonlyargs]
    cfg = Config()
    cfg.opaque_all = True

    def mk(run: Any):
        s = SObj("self", {"HTMLDOC"})
        run.__dict__["s"] = s
        b = {ps[0]: s}
        for p in ps[1:]:
            b[p] = SObj(p, {"STR", "NONE"}) if "prefix" in p else SBool(("param", p))
        return (b, s)

    n = 0
    for l in I.run_function(CORE, "HTMLDocument._gen_html_tag_tree", mk, cfg):
        s = l.run.__dict__["s"]
        if l.kind != "return":
            continue
        n += 1
        content = s.attrs.get("_content")
        # .5 every decision of the case table is taken on expanded content
        for a, v in l.atoms:
            if not isinstance(a, tuple):
                continue
            subj = None
            if a[0] in ("count", "first-is-meta", "len-cmp"):
                subj = [o for o in _objs(l) if getattr(o, "uid", None) == a[1]]
            elif a[0] in ("isinstance", "eq", "kind", "kindgroup"):
                subj = [o for o in _objs(l) if getattr(o, "uid", None) == a[1]]
            if not subj:
                continue
            o = subj[0]
            root = _collection_root(o)
            if root is None:
                continue
            if root is content:
                ctx.fail("C09.shape", where, f"decision `{a[0]}` on {short(o)}",
                         f"the html/body/fragment case is chosen by looking at the stored content ({short(o)}) before tagifiable objects are expanded: a sole "
                         f"object whose expansion is an <html> or <body> tag is wrapped in a second <html><body>",
                         witness="class Page: tagify = lambda s: tags.html(tags.body('hi'))\nHTMLDocument(Page()).render()")
            elif _from_tagify(root):
                ctx.ok("C09.shape", f"case-table decision `{a[0]}` is taken on the tagified content")
        # .4 what is handed to _hoist_head_content
        hoist = [e for e in l.effects if e.kind == "call" and getattr(e.target, "qual", "") == "HTMLDocument._hoist_head_content"]
        ctx.require(len(hoist) == 1, "_gen_html_tag_tree does not call _hoist_head_content exactly once on a path")
        arg = hoist[0].value[0] if hoist[0].value else None
        ok = _expanded(arg)
        ctx.check(ok, "C09.hoist", "the tree handed to _hoist_head_content is fully expanded (a tagify() result, or built from one)", where,
                  f"_hoist_head_content({short(arg)}, ...)",
                  f"_hoist_head_content receives {short(arg)}, which has not been tagified: dependencies carried by expansions are neither listed nor hoisted into <head>",
                  witness="HTMLDocument(tags.html(tags.body(obj_expanding_to_a_dependency))).render()['html']")
    ctx.min_count("_gen_html_tag_tree paths", n, 3)
    # _hoist_head_content reads the dependencies of the tree it was given
    where2 = f"{CORE}:HTMLDocument._hoist_head_content"
    fn2 = prog.function(CORE, "HTMLDocument._hoist_head_content")
    ps2 = [a.arg for a in fn2.args.args + fn2.args.kwonlyargs]

    def mk2(run: Any):
        x = SObj(ps2[0], {"TAG"})
        run.__dict__["x"] = x
        b = {ps2[0]: x}
        for p in ps2[1:]:
            b[p] = SObj(p, {"STR", "NONE"}) if "prefix" in p else SBool(("param", p))
        return (b, None)

    cfg2 = Config()
    cfg2.opaque_all = True
    cfg2.coarse_counts = True
    cfg2.loop_effects = False
    nn = 0
    for l in I.run_function(CORE, "HTMLDocument._hoist_head_content", mk2, cfg2):
        if l.kind != "return":
            continue
        nn += 1
        x = l.run.__dict__["x"]
        gd = [e for e in l.effects if e.kind == "call" and getattr(e.target, "qual", "").endswith(".get_dependencies")]
        ok = len(gd) == 1 and (gd[0].key is x or (isinstance(gd[0].key, SObj) and gd[0].key.meta.get("copy_of") is x))
        ctx.check(ok, "C09.hoist", "the dependencies hoisted are those of the (expanded) tree passed in", where2,
                  f"get_dependencies on {[short(e.key) for e in gd]}", "the hoisted dependencies are not collected from the tree that was passed in")
    ctx.min_count("_hoist_head_content paths", nn, 1)


def _objs(leaf: Any) -> List[Any]:
    out = list(leaf.run.elem_memo.values())
    for e in leaf.effects:
        out.extend([e.target, e.key])
        out.extend(e.value if isinstance(e.value, list) else [e.value])
    out.extend((leaf.env or {}).values())
    res = []
    for o in out:
        if isinstance(o, SObj):
            res.append(o)
            ao = o.meta.get("attr_of")
            if ao is not None and isinstance(ao[0], SObj):
                res.append(ao[0])
    return res


def _collection_root(o: Any, depth: int = 0) -> Any:
    """The list a decision subject belongs to (for element objects / their attributes), or the object itself if it is a list."""
    if depth > 6 or not isinstance(o, SObj):
        return None
    if o.kinds <= {"TAGLIST", "LIST"}:
        return o
    if o.elem_of is not None:
        return o.elem_of[0]
    ao = o.meta.get("attr_of")
    if ao is not None:
        return _collection_root(ao[0], depth + 1)
    return None


def _from_tagify(o: Any) -> bool:
    c = o.meta.get("call") if isinstance(o, SObj) else o.__dict__.get("call") if isinstance(o, SOpaque) else None
    return c is not None and getattr(c["func"], "qual", "").endswith(".tagify")


def _expanded(v: Any, depth: int = 0) -> bool:
    if depth > 5:
        return False
    if isinstance(v, (SObj, SOpaque)):
        if _from_tagify(v):
            return True
        if isinstance(v, SObj) and v.elem_of is not None:
            return _expanded(v.elem_of[0], depth + 1)
        return False
    if isinstance(v, SNew):
        kids = [a for a in v.args[1:]] + list(v.star)
        return all(_expanded(k, depth + 1) or (isinstance(k, SNew) and not k.args[1:] and not k.star) or not isinstance(k, Sym) for k in kids)
    return False


def reach_loop(ctx: Ctx, I: Interp) -> None:
    """Every path of TagList.tagify that returns normally has passed through the expansion loop, unless the path has
    established that the list is empty (all element counts of the receiver are 0): a path that returns a copy without looking
    at the children (a marker set by an earlier call, a cached result) leaves objects un-expanded."""
    cfg = Config()
    cfg.opaque_all = True
    cfg.stop_at_loop = ("TagList.tagify", 0)

    def mk(run: Any):
        s = SObj("self", {"TAGLIST"})
        return ({"self": s}, s)

    n = 0
    for l in I.run_function(CORE, "TagList.tagify", mk, cfg):
        if getattr(l.run, "stop_loop_record", None) is not None:
            n += 1
            continue
        if l.kind != "return":
            continue
        dom = getattr(l.run, "count_dom", {}) or {}
        empty = bool(dom) and all(set(v) == {0} for v in dom.values())
        conds = [lbl for _, lbl in l.atoms]
        ctx.check(empty, "C09.reach", "a path of TagList.tagify that returns without entering the expansion loop has an empty receiver", TLT,
                  f"returns {short(l.value)} before the loop under {conds}",
                  f"TagList.tagify returns {short(l.value)} without examining the children when {conds}: tagifiable objects placed in the "
                  f"list are not expanded on that path",
                  witness="y = TagList(div()).tagify(); y[0].append(T()); y.tagify()  # T has tagify() only")
    ctx.min_count("tagify paths through the loop", n, 1)


def check(ctx: Ctx) -> None:
    ctx.explanation = (
        "Splice safety of TagList.tagify: the index loop is recognised as descending (any splice is safe), as a forward loop into "
        "a fresh list, or as an explicit index loop whose advance after a splice must be exactly the number of spliced nodes; an "
        "ascending loop over a pre-computed range with a length-changing splice is refuted. Engine A loop-body table: a TagList "
        "expansion replaces exactly cp[i:i+1] with its normalised nodes, other expansions are stored at i, every tagifiable child is "
        "replaced (shared with C08). From the extracted sibling transducer: every row for an object with tagify() but no "
        "_repr_html_ raises RuntimeError and emits nothing; frames with non-text children always reach the sibling loop. "
        "Pipelines: Tag/TagList.render call get_dependencies/get_html_string on the tagified copy; in "
        "HTMLDocument._gen_html_tag_tree every case-table decision is taken on tagified content and the tree handed to "
        "_hoist_head_content is expanded; _hoist_head_content collects the dependencies of that tree.")
    ctx.trust("list slice assignment semantics", "Engine A abstract semantics")
    ctx.assume("results of user tagify() are arbitrary values of the documented types; their content is not modelled")
    I = Interp(ctx.prog)
    splice_safety(ctx)
    splice_shape(ctx, I)
    reach_loop(ctx, I)
    tagify_table(ctx, I)
    tag_tagify_shape(ctx, I, rule="C09.tagify")
    # tagifiable objects below a component (children, nested tags, prop values) are reached by the conversion's walk, and
    # render() reads markup and dependencies from the expanded copy
    from ..report import SharedCtx
    from .c20 import walker_coverage
    walker_coverage(SharedCtx(ctx, lambda r: "C09.jsx" if r == "C20.walk" else None), I)
    raise_path(ctx)
    render_uses_copy(ctx, I)
    document_pipeline(ctx, I)
