"""Obligations of C01-C07 over the extracted rendering model (sa/layout.py)."""

from __future__ import annotations

from typing import Any, Dict, Iterable, List, Optional, Tuple

from .frontend import AnalysisError
from .layout import (CHILD_KINDS, CORE, META_KINDS, VISIBLE_KINDS, Child, FrameScenario, Model, canon, child_classes,
                     extract, frame_leaf_matches, frame_scenarios, initial_state, sib_apply, sib_apply_all, sib_matches, spec_frame,
                     spec_sib_step, strip_names, _merge)
from .report import Ctx
from .values import SObj, SOpaque, Unmodelled, short

TL = f"{CORE}:TagList.get_html_string"
TG = f"{CORE}:Tag.get_html_string"
_WS = ("EOL", "INDENT", "REP", "VAR")

def model(ctx: Ctx) -> Model:
    # cached on the program object (one model per parsed tree)
    m = ctx.prog.__dict__.get("_render_model")
    if m is None:
        m = extract(ctx.prog)
        ctx.prog.__dict__["_render_model"] = m
    for a, b in m.stats.items():
        ctx.counters[a] = b
    return m


def resolve_defaults(m: Model, toks: List[Tuple[Any, ...]]) -> List[Tuple[Any, ...]]:
    return toks


def preconditions(ctx: Ctx, m: Model) -> None:
    """Shape facts every rendering rule relies on; failing them is 'cannot decide'."""
    ctx.require(len(m.sib_return) == 1 and m.sib_return[0][:2] == ("LOOP", m.sib_acc),
                f"TagList.get_html_string returns more than the loop accumulation: {m.sib_return}")
    init_acc = m.sib_init.get(m.sib_acc)
    ctx.require(init_acc == "", f"TagList.get_html_string: accumulator starts as {init_acc!r}, not ''")
    for r in m.sib_rows:
        if not r.acc_ok:
            raise AnalysisError(f"TagList.get_html_string: accumulator `{m.sib_acc}` is rewritten, not appended to: {r.tokens}")
    ctx.min_count("sibling rows", len(m.sib_rows), 8)
    ctx.min_count("frame leaves", len(m.frame_leaves), 4)


# ---------------------------------------------------------------------------------------
# walking the transducer together with the specification state
# ---------------------------------------------------------------------------------------

def walk(m: Model, block_in_inline: bool) -> Iterable[Dict[str, Any]]:
    """All reachable (implementation state, specification state, previous child class) x child class."""
    for add_ws in (True, False):
        for escape in (True, False):
            params = {"add_ws": add_ws, "_escape_strings": escape}
            st0 = initial_state(m, params)
            start = (tuple(sorted(st0.items())), True, add_ws, None)
            seen = {start}
            work = [start]
            while work:
                ist_t, first, prev_block, prev_cls = work.pop()
                ist = dict(ist_t)
                for ch in child_classes():
                    if ch.block and not add_ws and not block_in_inline:
                        continue
                    rows = sib_matches(m, ist, ch, params)
                    spec = spec_sib_step(first, prev_block, add_ws, escape, ch)
                    yield {"params": params, "state": ist, "first": first, "prev_block": prev_block, "prev": prev_cls,
                           "child": ch, "rows": rows, "spec": spec}
                    for r in rows:
                        if r.outcome in ("raise", "return", "break"):
                            continue
                        if spec["outcome"] == "raise":
                            continue
                        for ns in sib_apply_all(m, r, ist, ch, params):
                            nprev = prev_cls if ch.kind in META_KINDS else ch.key()
                            nxt = (tuple(sorted(ns.items())), spec["first"], spec["prev_block"], nprev)
                            if nxt not in seen:
                                seen.add(nxt)
                                work.append(nxt)


def describe(step: Dict[str, Any]) -> str:
    p = step["params"]
    prev = step["prev"]
    pv = "none" if prev is None else ("BLOCK" if prev == ("TAG", True) else "INLINE" if prev == ("TAG", False) else prev[0])
    return (f"sibling step: list(add_ws={p['add_ws']}, escape={p['_escape_strings']}) first={step['first']} "
            f"previous={pv} child={step['child']!r}")


def _state_text(step: Dict[str, Any]) -> str:
    return ", ".join(f"{k}={v}" for k, v in sorted(step["state"].items()))


def proj_layout(tokens: List[Tuple[Any, ...]]) -> List[Tuple[Any, ...]]:
    out = []
    for t in strip_names(tokens):
        if t[0] == "TEXT":
            out.append(("CONTENT",))
        elif t[0] == "CHILDREN":
            out.append(t[:4])
        else:
            out.append(t)
    return out


def proj_struct(tokens: List[Tuple[Any, ...]]) -> List[Tuple[Any, ...]]:
    out: List[Tuple[Any, ...]] = []
    for t in strip_names(tokens):
        if t[0] in ("EOL", "INDENT"):
            continue
        if t[0] == "LIT" and isinstance(t[1], str) and t[1] and not t[1].strip(" "):
            continue        # literal indentation is layout, not structure
        if t[0] == "TEXT":
            out.append(("CONTENT",))
        elif t[0] in ("TAG", "CHILDREN"):
            out.append((t[0],))
        else:
            out.append(t)
    return _merge(out)


def proj_text(tokens: List[Tuple[Any, ...]]) -> List[Tuple[Any, ...]]:
    out = []
    for t in strip_names(tokens):
        if t[0] == "TEXT":
            out.append(t)
        elif t[0] == "CHILDREN":
            out.append(("CHILDREN-ESCAPE", t[4]))
        elif t[0] in ("OP", "CALL", "NONSTRING"):
            out.append(t)
    return out


def has_ws(tokens: List[Tuple[Any, ...]]) -> bool:
    return any(t[0] in _WS for t in tokens)


def flat_tags(tokens: List[Tuple[Any, ...]]) -> bool:
    return all(t[:3] == ("TAG", ("const", 0), ("const", "")) for t in tokens if t[0] == "TAG")


# ---------------------------------------------------------------------------------------
# frames
# ---------------------------------------------------------------------------------------

def _resolve_bools(t: Tuple[Any, ...], leaf: Any, sc: Any) -> Tuple[Any, ...]:
    out = []
    for x in t:
        if isinstance(x, tuple) and len(x) == 2 and x[0] == "bool":
            atom = x[1]
            memo = leaf.run.path.memo
            if atom in memo:
                x = ("const", memo[atom] == 0)
            elif isinstance(atom, tuple) and atom[0] == "attr" and atom[2] == "add_ws" and sc is not None:
                x = ("const", sc.add_ws)
        out.append(x)
    return tuple(out)


def frame_tokens(m: Model, leaf: Any, sc: Any = None) -> List[Tuple[Any, ...]]:
    if leaf.kind != "return":
        return [("RAISE", getattr(leaf.value, "cls_name", "?"))] if leaf.kind == "raise" else [(leaf.kind.upper(),)]
    toks = canon(leaf.value)
    out = []
    for t in toks:
        if t[0] == "LOOP":
            recs = [r for r in leaf.run.loops if r.__dict__.get("loop_key") == t[2]]
            rec = recs[0] if recs else None
            d = getattr(rec.iter_value, "iter_descr", None) if rec is not None else None
            if d is not None and d[0] == "items" and isinstance(d[1], SObj) and d[1].name == "self.attrs":
                out.append(("ATTRS",))
            else:
                out.append(("LOOP", short(rec.iter_value) if rec else "?"))
        elif t[0] == "JOINMAP":
            d = getattr(t[1].get("over"), "iter_descr", None)
            if d is not None and d[0] == "items" and isinstance(d[1], SObj) and d[1].name == "self.attrs" and not t[1].get("cond"):
                out.append(("ATTRS",))
            else:
                out.append(("JOIN", short(t[1].get("over"))))
        elif t[0] in ("TAG", "CHILDREN"):
            out.append(_resolve_bools(t, leaf, sc))
        else:
            out.append(t)
    return _merge(out)


def _extra_reachable(m: Model, leaf: Any) -> bool:
    """Extra boolean parameters of Tag.get_html_string: a path that assumes a non-default value is only reachable when
    some call site can pass that value (a variable argument can carry either value)."""
    memo = leaf.run.path.memo
    for nm, dflt in getattr(m, "tag_extra", {}).items():
        if not isinstance(dflt, bool):
            continue
        ch = memo.get(("param", nm))
        if ch is None:
            continue
        val = ch == 0
        if val == dflt:
            continue
        passed = getattr(m, "tag_extra_passed", {}).get(nm, set())
        if not any(a[0] != "const" or a[1] == val for a in passed):
            return False
    return True


def frames(m: Model) -> Iterable[Tuple[FrameScenario, List[Tuple[Any, List[Tuple[Any, ...]], List[Any]]]]]:
    for sc in frame_scenarios(m):
        hits = []
        for leaf in m.frame_leaves:
            if not _extra_reachable(m, leaf):
                continue
            ok, free = frame_leaf_matches(m, leaf, sc)
            if ok:
                hits.append((leaf, frame_tokens(m, leaf, sc), free))
        yield sc, hits


def spec_for(m: Model, sc: FrameScenario) -> List[Tuple[Any, ...]]:
    return spec_frame(sc.n_vis, sc.name in VOID16, sc.name in NOESC2, sc.add_ws, sc.single_kind)


# the property's own constants (C01 statement / C04 statement)
VOID16 = frozenset("area base br col command embed hr img input keygen link meta param source track wbr".split())
NOESC2 = frozenset({"script", "style"})


def fmt(tokens: Optional[List[Tuple[Any, ...]]]) -> str:
    if tokens is None:
        return "<raise>"
    parts = []
    for t in strip_names(tokens):
        if t[0] == "LIT":
            parts.append(repr(t[1]))
        elif t[0] == "EOL":
            parts.append("EOL")
        elif t[0] == "INDENT":
            parts.append(f"INDENT(indent{t[1]:+d})" if t[1] else "INDENT(indent)")
        elif t[0] == "TEXT":
            parts.append(f"{t[1]}[{'+'.join(t[2]) if t[2] else 'raw'}]")
        elif t[0] == "TAG":
            parts.append("TAG(" + _a(t[1]) + "," + _a(t[2]) + ")")
        elif t[0] == "CHILDREN":
            parts.append("CHILDREN(" + ",".join(_a(x) for x in t[1:5]) + ")")
        else:
            parts.append(str(t))
    return " ".join(parts) if parts else "<nothing>"


def _a(x: Any) -> str:
    if isinstance(x, tuple):
        if x[0] == "indent":
            return "indent" + (f"{x[1]:+d}" if x[1] else "")
        if x[0] == "var":
            return str(x[1])
        if x[0] == "const":
            return repr(x[1])
        if x[0] == "bool":
            return str(x[1])
    return str(x)
