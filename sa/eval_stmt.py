"""Engine A, part 4: statements, stores (logged as effects) and loop summarisation."""

from __future__ import annotations

import ast
from typing import Any, Dict, List, Optional, Tuple

from .frontend import AnalysisError, ClassInfo, norm
from .values import (ALL_KINDS, Frag, SBool, SBound, SClass, SDict, SExtern, SFunc, SInt, SList, SNew, SObj, SOpaque,
                     SSplat, SStr, SSuper, SUnknown, Sym, Unmodelled, lit, short)


def loops_of(fn: ast.AST) -> List[ast.stmt]:
    """For/While statements of a function in source order (nested functions excluded)."""
    out: List[ast.stmt] = []

    def rec(body: List[ast.stmt]) -> None:
        for st in body:
            if isinstance(st, (ast.FunctionDef, ast.AsyncFunctionDef, ast.ClassDef)):
                continue
            if isinstance(st, (ast.For, ast.While)):
                out.append(st)
            for fld in ("body", "orelse", "finalbody"):
                sub = getattr(st, fld, None)
                if isinstance(sub, list):
                    rec(sub)
            if isinstance(st, ast.Try):
                for h in st.handlers:
                    rec(h.body)

    rec(list(getattr(fn, "body", [])))
    return out


def assigned_names(body: List[ast.stmt], continuing_only: bool = False) -> List[str]:
    """Names stored in a statement list (nested defs excluded).  With continuing_only, assignments inside a
    block that ends in break/return/raise are ignored (they cannot flow to the next iteration)."""
    out: List[str] = []

    def add_target(t: ast.expr) -> None:
        if isinstance(t, ast.Name):
            if t.id not in out:
                out.append(t.id)
        elif isinstance(t, (ast.Tuple, ast.List)):
            for e in t.elts:
                add_target(e)
        elif isinstance(t, ast.Starred):
            add_target(t.value)

    def ends_abruptly(b: List[ast.stmt]) -> bool:
        return bool(b) and isinstance(b[-1], (ast.Break, ast.Return, ast.Raise))

    def rec(b: List[ast.stmt]) -> None:
        if continuing_only and ends_abruptly(b):
            return
        for st in b:
            if isinstance(st, (ast.FunctionDef, ast.AsyncFunctionDef, ast.ClassDef)):
                add_target(ast.Name(id=st.name, ctx=ast.Store()))
                continue
            if isinstance(st, ast.Assign):
                for t in st.targets:
                    add_target(t)
            elif isinstance(st, (ast.AugAssign, ast.AnnAssign)):
                add_target(st.target)
            elif isinstance(st, (ast.For, ast.AsyncFor)):
                add_target(st.target)
            elif isinstance(st, (ast.With, ast.AsyncWith)):
                for i in st.items:
                    if i.optional_vars is not None:
                        add_target(i.optional_vars)
            for n in ast.walk(st) if not isinstance(st, (ast.If, ast.For, ast.While, ast.Try, ast.With)) else []:
                if isinstance(n, ast.NamedExpr):
                    add_target(n.target)
            for fld in ("body", "orelse", "finalbody"):
                sub = getattr(st, fld, None)
                if isinstance(sub, list):
                    rec(sub)
            if isinstance(st, ast.Try):
                for h in st.handlers:
                    rec(h.body)

    rec(body)
    return out


def touched_names(body: List[ast.stmt]) -> List[str]:
    """Local names whose object may be mutated by the statements: method receivers and call arguments."""
    out: List[str] = []
    for st in body:
        for n in ast.walk(st):
            if isinstance(n, ast.Call):
                if isinstance(n.func, ast.Attribute) and isinstance(n.func.value, ast.Name):
                    if n.func.value.id not in out:
                        out.append(n.func.value.id)
                for a in list(n.args) + [k.value for k in n.keywords]:
                    if isinstance(a, ast.Starred):
                        a = a.value
                    if isinstance(a, ast.Name) and a.id not in out:
                        out.append(a.id)
            elif isinstance(n, (ast.Subscript, ast.Attribute)) and isinstance(n.ctx, (ast.Store, ast.Del)) \
                    and isinstance(n.value, ast.Name):
                if n.value.id not in out:
                    out.append(n.value.id)
            elif isinstance(n, ast.AugAssign) and isinstance(n.target, ast.Name):
                if n.target.id not in out:
                    out.append(n.target.id)
    return out


def _contains(body: List[ast.stmt], types: Tuple[type, ...], stop_at_loops: bool = False) -> bool:
    for st in body:
        if isinstance(st, (ast.FunctionDef, ast.AsyncFunctionDef, ast.ClassDef)):
            continue
        if isinstance(st, types):
            return True
        if stop_at_loops and isinstance(st, (ast.For, ast.While)):
            # a break inside a nested loop belongs to that loop
            if ast.Break in types and len(types) == 1:
                continue
        for fld in ("body", "orelse", "finalbody"):
            sub = getattr(st, fld, None)
            if isinstance(sub, list) and _contains(sub, types, stop_at_loops):
                return True
        if isinstance(st, ast.Try):
            for h in st.handlers:
                if _contains(h.body, types, stop_at_loops):
                    return True
    return False


class StmtMixin:
    # ------------------------------------------------------------------ blocks
    def exec_block(self, body: List[ast.stmt]) -> None:
        for st in body:
            self.exec(st)

    def exec(self, st: ast.stmt) -> None:
        m = getattr(self, "s_" + type(st).__name__, None)
        if m is None:
            raise self.unmodelled(f"statement form {type(st).__name__}", st)
        m(st)

    def s_Expr(self, st: ast.Expr) -> None:
        if isinstance(st.value, ast.Constant):
            return
        self.eval(st.value)

    def s_Pass(self, st: ast.Pass) -> None:
        return

    def s_Return(self, st: ast.Return) -> None:
        from .interp import _Return
        raise _Return(self.eval(st.value) if st.value is not None else None)

    def s_Raise(self, st: ast.Raise) -> None:
        from .interp import _Raise
        if st.exc is None:
            cur = getattr(self, "_current_exc", None)
            raise _Raise(cur if cur is not None else SNew("Exception"), st)
        # the text of an error message is never decided on: str() of a many-kinded value inside it stays one opaque piece
        self.run.__dict__["in_raise"] = self.run.__dict__.get("in_raise", 0) + 1
        try:
            v = self.eval(st.exc)
        finally:
            self.run.__dict__["in_raise"] -= 1
        if isinstance(v, SExtern) and v.mod == "builtins":
            v = SNew(v.name or "Exception")
        if isinstance(v, SClass):
            v = SNew(v.ci)
        raise _Raise(v, st)

    def s_Continue(self, st: ast.Continue) -> None:
        from .interp import _Continue
        raise _Continue()

    def s_Break(self, st: ast.Break) -> None:
        from .interp import _Break
        raise _Break()

    def s_If(self, st: ast.If) -> None:
        if self.run.truth(self.eval(st.test), st.test):
            self.exec_block(st.body)
        else:
            self.exec_block(st.orelse)

    def s_Assert(self, st: ast.Assert) -> None:
        if not self.run.truth(self.eval(st.test), st.test):
            self.raise_exc("AssertionError", st)

    def s_Global(self, st: ast.Global) -> None:
        self.frame.__dict__.setdefault("global_names", set()).update(st.names)

    def s_Nonlocal(self, st: ast.Nonlocal) -> None:
        self.frame.__dict__.setdefault("nonlocal_names", set()).update(st.names)

    def s_FunctionDef(self, st: ast.FunctionDef) -> None:
        self.frame.env[st.name] = SFunc(self.frame.mod, st, None, None, self.frame,
                                        f"{self.frame.func.qual}.{st.name}")

    def s_ClassDef(self, st: ast.ClassDef) -> None:
        self.frame.env[st.name] = SUnknown(f"local class {st.name}")

    def s_Import(self, st: ast.Import) -> None:
        for a in st.names:
            self.frame.env[a.asname or a.name.split(".")[0]] = SExtern(a.name if a.asname else a.name.split(".")[0], None)

    def s_ImportFrom(self, st: ast.ImportFrom) -> None:
        base = self.frame.mod._resolve_relative(st.module, st.level)
        for a in st.names:
            nm = a.asname or a.name
            if base in self.prog.modules:
                sub = f"{base}.{a.name}"
                tgt = self.prog.modules[base]
                if sub in self.prog.modules and a.name not in tgt.functions and a.name not in tgt.classes \
                        and a.name not in tgt.assigns:
                    self.frame.env[nm] = SExtern("<repo>" + sub, None)
                else:
                    self.frame.env[nm] = self.lookup_global(tgt, a.name, st)
            else:
                self.frame.env[nm] = SExtern(base, a.name)

    def s_Delete(self, st: ast.Delete) -> None:
        for t in st.targets:
            if isinstance(t, ast.Subscript):
                base = self.eval(t.value)
                key = self.eval(t.slice) if not isinstance(t.slice, ast.Slice) else ("slice", norm(t.slice))
                self.run.effect("del_item", base, key, None, st)
            elif isinstance(t, ast.Name):
                self.frame.env.pop(t.id, None)
            elif isinstance(t, ast.Attribute):
                base = self.eval(t.value)
                self.run.effect("del_attr", base, t.attr, None, st)
            else:
                raise self.unmodelled("del target", st)

    # ------------------------------------------------------------------ assignment
    def s_Assign(self, st: ast.Assign) -> None:
        v = self.eval(st.value)
        for t in st.targets:
            self.assign(t, v, st)

    def s_AnnAssign(self, st: ast.AnnAssign) -> None:
        if st.value is None:
            return
        v = self.eval(st.value)
        # `d: dict[str, T] = {}` - remember the declared value type of a fresh container (checked by the users)
        if isinstance(v, SDict) and isinstance(st.annotation, (ast.Subscript, ast.Constant)):
            ann = st.annotation
            if isinstance(ann, ast.Constant) and isinstance(ann.value, str):
                try:
                    ann = ast.parse(ann.value, mode="eval").body
                except SyntaxError:
                    ann = None
            if isinstance(ann, ast.Subscript) and ast.unparse(ann.value).split(".")[-1] in ("dict", "Dict") \
                    and isinstance(ann.slice, ast.Tuple) and len(ann.slice.elts) == 2:
                ks = self.kinds_from_annotation(ann.slice.elts[1], self.frame.mod)
                if ks is not None:
                    v.__dict__["value_kinds"] = ks
        self.assign(st.target, v, st)

    def s_AugAssign(self, st: ast.AugAssign) -> None:
        t = st.target
        if isinstance(t, ast.Name):
            cur = self.lookup(t.id, st)
        elif isinstance(t, ast.Attribute):
            cur = self.get_attr(self.eval(t.value), t.attr, st)
        elif isinstance(t, ast.Subscript):
            cur = self.get_item(self.eval(t.value), self.eval(t.slice), st)
        else:
            raise self.unmodelled("augmented assignment target", st)
        rhs = self.eval(st.value)
        # in-place list extension is a mutation of the list object
        if isinstance(st.op, ast.Add) and isinstance(cur, SList):
            if cur.mode == "concrete":
                cur.items.extend(self.splat(rhs, st))
            else:
                self.run.effect("mutcall", cur, "__iadd__", [rhs], st)
            return
        if isinstance(st.op, ast.Add) and isinstance(cur, (SObj, SNew)):
            ci = self.class_of(cur)
            if ci is not None:
                m = self.prog.find_method(ci, "__iadd__")
                if m is not None:
                    r = self.call_method_def(cur, m[0], m[1], [rhs], {}, st)
                    self.assign(t, r, st)
                    return
            if isinstance(cur, SObj) and cur.kinds <= frozenset({"LIST", "TAGLIST"}):
                self.run.effect("mutcall", cur, "__iadd__", [rhs], st)
                return
        self.assign(t, self.binop(st.op, cur, rhs, st), st)

    def assign(self, t: ast.expr, v: Any, node: ast.AST) -> None:
        run = self.run
        if isinstance(t, ast.Name):
            fr = self.frame
            if t.id in fr.__dict__.get("nonlocal_names", ()):
                clo = fr.func.closure
                while clo is not None:
                    if t.id in clo.env:
                        clo.env[t.id] = v
                        return
                    clo = clo.func.closure
            if t.id in fr.__dict__.get("global_names", ()):
                run.effect("global_store", f"{fr.mod.name}.{t.id}", None, v, node)
                run.globals_state[f"{fr.mod.name}.{t.id}"] = v
                return
            fr.env[t.id] = v
            return
        if isinstance(t, (ast.Tuple, ast.List)):
            self.bind_target(t, v, node)
            return
        if isinstance(t, ast.Attribute):
            base = self.eval(t.value)
            if isinstance(base, SExtern):
                q = f"{base.qual}.{t.attr}"
                run.effect("global_store", q, None, v, node)
                run.globals_state[q] = v
                return
            if isinstance(base, (SObj, SNew, SOpaque)):
                run.effect("store_attr", base, t.attr, v, node)
                base.attrs[t.attr] = v
                return
            if isinstance(base, SFunc):
                run.effect("store_attr", base, t.attr, v, node)
                return
            raise self.unmodelled(f"attribute store on {type(base).__name__}", node)
        if isinstance(t, ast.Subscript):
            base = self.eval(t.value)
            if isinstance(t.slice, ast.Slice):
                lo = self.eval(t.slice.lower) if t.slice.lower is not None else None
                hi = self.eval(t.slice.upper) if t.slice.upper is not None else None
                # TagList defines no __setitem__: UserList.__setitem__ -> self.data[i] = item
                one = None
                width1 = (isinstance(lo, SInt) and isinstance(hi, SInt) and lo.base == hi.base and hi.off - lo.off == 1) or \
                    (isinstance(lo, int) and isinstance(hi, int) and not isinstance(lo, bool) and lo >= 0 and hi - lo == 1)
                if width1 and t.slice.step is None:
                    its = v.items if isinstance(v, SList) and v.mode == "concrete" else list(v) if isinstance(v, (list, tuple)) else None
                    if its is not None and len(its) == 1 and not isinstance(its[0], SSplat):
                        one = its[0]
                if one is None:
                    run.effect("store_slice", base, (lo, hi), v, node)
                    return
                # x[i:i+1] = [item] on a list is x[i] = item
                key, v = lo, one
            else:
                key = self.eval(t.slice)
            if isinstance(key, SStr) and key.is_const():
                key = key.const()
            ci = self.class_of(base) if isinstance(base, (SObj, SNew)) else None
            if ci is not None:
                m = self.prog.find_method(ci, "__setitem__")
                if m is not None and m[0].module.name.startswith("htmltools"):
                    self.call_method_def(base, m[0], m[1], [key, v], {}, node)
                    return
            run.effect("store_item", base, key, v, node)
            from .eval_expr import _K
            if isinstance(base, SDict):
                base.items[key if not isinstance(key, Sym) else _K(key)] = v
            elif isinstance(base, SList) and base.mode == "concrete" and isinstance(key, int) and -len(base.items) <= key < len(base.items):
                base.items[key] = v
            elif isinstance(base, (SObj, SNew, SOpaque)):
                mk_kind = "dictitem" if getattr(base, "kinds", None) and base.kinds <= frozenset({"DICT", "TAGATTRDICT", "JSXATTRDICT"}) else None
                if mk_kind:
                    self.run.elem_memo[("dictitem", base.uid, _K(key) if isinstance(key, Sym) else key)] = v
                else:
                    self.run.elem_memo[("stored", base.uid, _K(key) if isinstance(key, Sym) else key)] = v
            return
        raise self.unmodelled("assignment target", node)

    # ------------------------------------------------------------------ with / try
    def s_With(self, st: ast.With) -> None:
        for item in st.items:
            ctx = self.eval(item.context_expr)
            self.run.effect("with", ctx, None, None, st)
            if item.optional_vars is not None:
                v = SOpaque(("enter", short(ctx)))
                v.__dict__["enter_of"] = ctx
                self.assign(item.optional_vars, v, st)
        self.exec_block(st.body)

    def s_Try(self, st: ast.Try) -> None:
        from .interp import _Raise
        try:
            try:
                self.exec_block(st.body)
            except _Raise as r:
                handled = False
                for h in st.handlers:
                    if self.handler_matches(h, r.exc):
                        handled = True
                        prev = getattr(self, "_current_exc", None)
                        self._current_exc = r.exc
                        if h.name:
                            self.frame.env[h.name] = r.exc
                        try:
                            self.exec_block(h.body)
                        finally:
                            self._current_exc = prev
                        break
                if not handled:
                    raise
            else:
                self.exec_block(st.orelse)
        finally:
            if st.finalbody:
                self.exec_block(st.finalbody)

    def handler_matches(self, h: ast.ExceptHandler, exc: Any) -> bool:
        if h.type is None:
            return True
        names = []
        ts = h.type.elts if isinstance(h.type, ast.Tuple) else [h.type]
        for t in ts:
            names.append(ast.unparse(t).split(".")[-1])
        en = exc.cls_name if isinstance(exc, SNew) else "Exception"
        if en in names or "Exception" in names or "BaseException" in names:
            return True
        return False

    # ------------------------------------------------------------------ loops
    def s_For(self, st: ast.For) -> None:
        from .interp import _Break, _Continue
        it = self.eval(st.iter)
        from .values import SGen
        if isinstance(it, SGen):
            self.generator_loop(st, it)
            return
        parts = it.__dict__.get("chain_parts") if isinstance(it, SOpaque) else None
        if parts is not None and not st.orelse and not _contains(st.body, (ast.Break,), stop_at_loops=True):
            # for x in chain(a, b, ..): the loop over a, then over b, ... (no break: each part runs to its end)
            for part in parts:
                self._for_over(st, part)
            return
        self._for_over(st, it)

    def _for_over(self, st: ast.For, it: Any) -> None:
        from .interp import _Break, _Continue
        items = self.concrete_items(it)
        if items is not None and not self.is_stop_loop(st):
            broke = False
            for x in items:
                self.bind_target(st.target, x, st)
                try:
                    self.exec_block(st.body)
                except _Continue:
                    continue
                except _Break:
                    broke = True
                    break
            if not broke:
                self.exec_block(st.orelse)
            return
        self.symbolic_loop(st, it)

    def s_While(self, st: ast.While) -> None:
        self.symbolic_loop(st, None)

    def generator_loop(self, st: ast.For, gen: Any) -> None:
        """`for T in <generator>: BODY` - the generator's body runs lazily, BODY at each of its yields (so effects of the
        producer and of the consumer interleave exactly as in Python); the loop as a whole is summarised like any loop over
        an unknown number of items."""
        from .interp import LoopRecord, _BodyExit, _Break, _Continue, _Raise, _Return
        run = self.run
        fr = self.frame
        if self.is_stop_loop(st):
            raise self.unmodelled("loop-body table of a loop over a generator", st)
        lid = self.loop_id(st)
        body = st.body
        all_assigned = [n for n in assigned_names(body) if n in fr.env]
        cont_assigned = [n for n in assigned_names(body, continuing_only=True) if n in fr.env]
        rec = LoopRecord(len(run.loops), st, gen, dict(fr.env), fr.func.qual)
        rec.carried = list(all_assigned)
        rec.__dict__["loop_key"] = lid
        run.loops.append(rec)
        run.effect("loop", lid, None, gen, st)
        for n in touched_names(body):
            v = fr.env.get(n)
            if isinstance(v, SList) and v.mode == "concrete" and v.pytype != "tuple":
                v.__dict__["entry"] = list(v.items)
                v.__dict__["loop"] = lid
                v.mode = "carried"
                v.name = v.name or n
            elif isinstance(v, SDict) and v.concrete:
                v.__dict__["entry"] = dict(v.items)
                v.__dict__["loop"] = lid
                v.concrete = False
                v.name = v.name or n
        has_break = _contains(body, (ast.Break,), stop_at_loops=True)
        has_exit = _contains(body, (ast.Return, ast.Raise))
        options = ["exhausted"] + (["break"] if has_break else []) + (["exit"] if has_exit else [])
        c = 0
        if len(options) > 1:
            c = run.path.choose(("loop", lid), len(options), tuple(options))
        choice = options[c]

        def on_yield(v: Any) -> None:
            self.frames.append(fr)
            mark = len(run.effects)
            try:
                rec.__dict__["element"] = v
                self.bind_target(st.target, v, st)
                self.exec_block(body)
            except _Continue:
                pass
            except _Break:
                raise _BodyExit("break")
            except _Return as r:
                raise _BodyExit("return", r)
            except _Raise as r:
                raise _BodyExit("raise", r)
            finally:
                self.frames.pop()
                for e in run.effects[mark:]:
                    if e.__dict__.get("in_loop") is None:
                        if e.extra is None or isinstance(e.extra, dict):
                            e.extra = dict(e.extra or {}, in_loop=lid)
                        e.__dict__["in_loop"] = lid
                        e.__dict__["in_loop_rec"] = rec

        saved = {n: fr.env[n] for n in all_assigned}
        if choice == "exhausted":
            for n in all_assigned:
                fr.env[n] = self.generalise(n, fr.env[n], lid, "body")
            try:
                self.run_generator(gen, on_yield, st)
            except _BodyExit:
                raise_infeasible()
            for n in all_assigned:
                fr.env[n] = saved[n]
            for n in cont_assigned:
                fr.env[n] = self.generalise(n, fr.env[n], lid, "after")
            for n in _names(st.target):
                fr.env.setdefault(n, SUnknown(f"loop variable {n} after loop"))
            self.exec_block(st.orelse)
            return
        for n in cont_assigned:
            fr.env[n] = self.generalise(n, fr.env[n], lid, "body")
        try:
            self.run_generator(gen, on_yield, st)
        except _BodyExit as b:
            if b.kind == "break" and choice == "break":
                return
            if b.kind in ("return", "raise") and choice == "exit":
                raise b.payload
            raise_infeasible()
        except _Raise:
            raise_infeasible()      # the generator itself raised: that path belongs to the "exhausted" alternative
        raise_infeasible()

    def loop_id(self, st: ast.stmt) -> Tuple[str, int]:
        fn = self.frame.func.node
        ls = loops_of(fn)
        for i, l in enumerate(ls):
            if l is st:
                return (self.frame.func.qual, i)
        return (self.frame.func.qual, -1)

    def is_stop_loop(self, st: ast.stmt) -> bool:
        tgt = self.run.cfg.stop_at_loop
        return tgt is not None and self.loop_id(st) == tuple(tgt)

    def generalise(self, name: str, cur: Any, lid: Tuple[str, int], mode: str) -> Any:
        """Value of a loop-carried variable at an arbitrary iteration (mode 'body') or after the loop ('after')."""
        tag = f"{name}@{lid[0]}#{lid[1]}"
        if isinstance(cur, bool) or isinstance(cur, SBool):
            return SBool(("carried", tag, mode))
        s = self.as_sstr(cur) if not isinstance(cur, (SList, SDict)) else None
        if isinstance(cur, (str, SStr)) and s is not None:
            if mode == "body":
                return SStr([Frag("ACC", name)])
            return SStr(s.frags + (Frag("LOOP", lid, name),))
        if isinstance(cur, (list, tuple)) or (isinstance(cur, SList)):
            l = SList("carried", name=name)
            l.__dict__["entry"] = cur
            l.__dict__["loop"] = lid
            if isinstance(cur, SList):
                l.pytype = cur.pytype
            return l
        if isinstance(cur, (dict, SDict)):
            d = SDict(name=name, concrete=False)
            d.__dict__["entry"] = cur
            d.__dict__["loop"] = lid
            if isinstance(cur, SDict):
                d.origin = cur.origin
            return d
        if isinstance(cur, (set, frozenset)):
            l = SList("carried", name=name)
            l.pytype = "set"
            l.__dict__["entry"] = cur
            return l
        if isinstance(cur, int) or isinstance(cur, SInt):
            return SInt(tag)
        if cur is None or isinstance(cur, SObj):
            ks = set(cur.kinds) if isinstance(cur, SObj) else {"NONE"}
            o = SObj(tag, ALL_KINDS if cur is not None else ALL_KINDS, origin="new")
            o.meta["carried"] = True
            return o
        return SUnknown(f"loop-carried {name}")

    def symbolic_loop(self, st: ast.stmt, it: Any) -> None:
        from .interp import LoopRecord, _Break, _Continue, _Raise, _Return, _StopAtLoop
        run = self.run
        fr = self.frame
        lid = self.loop_id(st)
        body: List[ast.stmt] = st.body  # type: ignore[attr-defined]
        all_assigned = [n for n in assigned_names(body) if n in fr.env]
        cont_assigned = [n for n in assigned_names(body, continuing_only=True) if n in fr.env]
        rec = LoopRecord(len(run.loops), st, it, dict(fr.env), fr.func.qual)  # type: ignore[arg-type]
        rec.carried = list(all_assigned)
        rec.__dict__["loop_key"] = lid
        run.loops.append(rec)
        run.effect("loop", lid, None, it, st)
        # containers that the body may mutate in place (x.append(..), f(.., x)) have unknown content from here on;
        # converted in place because callers may hold the same object
        for n in touched_names(body):
            v = fr.env.get(n)
            if isinstance(v, SList) and v.mode == "concrete" and v.pytype != "tuple":
                v.__dict__["entry"] = list(v.items)
                v.__dict__["loop"] = lid
                v.mode = "carried"
                v.name = v.name or n
            elif isinstance(v, SDict) and v.concrete:
                v.__dict__["entry"] = dict(v.items)
                v.__dict__["loop"] = lid
                v.concrete = False
                v.name = v.name or n

        def enter_body(carried: List[str]) -> None:
            for n in carried:
                if n in run.cfg.carried_override and self.is_stop_loop(st):
                    fr.env[n] = run.cfg.carried_override[n]
                else:
                    fr.env[n] = self.generalise(n, fr.env[n], lid, "body")
            if isinstance(st, ast.For):
                var = self.generic_element(it, st.target, st)
                rec.__dict__["element"] = var
                self.bind_target(st.target, var, st)
            else:
                if not run.truth(self.eval(st.test), st.test):  # type: ignore[attr-defined]
                    raise_infeasible()

        rec.__dict__["active"] = True      # (the body runs at most once per record; the flag is read while it runs)
        if self.is_stop_loop(st):
            rec.__dict__["body_effect_start"] = len(run.effects)
            enter_body(all_assigned)
            rec.__dict__["body_entry_env"] = dict(fr.env)
            try:
                self.exec_block(body)
                outcome: Tuple[Any, ...] = ("fall",)
            except _Continue:
                outcome = ("continue",)
            except _Break:
                outcome = ("break",)
            except _Return as r:
                outcome = ("return", r.value)
            except _Raise as r:
                outcome = ("raise", r.exc)
            run.final_env = dict(fr.env)
            run.stop_loop_record = rec
            raise _StopAtLoop(outcome)

        has_break = _contains(body, (ast.Break,), stop_at_loops=True)
        has_exit = _contains(body, (ast.Return, ast.Raise))
        options = ["exhausted"] + (["break"] if has_break else []) + (["exit"] if has_exit else [])
        c = 0
        if len(options) > 1:
            c = run.path.choose(("loop", lid), len(options), tuple(options))
        choice = options[c]
        if choice == "exhausted":
            if run.cfg.loop_effects:
                # one generic iteration, only to record the effects the body can have (tagged as in-loop)
                from .interp import Infeasible
                saved_env = dict(fr.env)
                mark = len(run.effects)
                try:
                    enter_body(all_assigned)
                    self.exec_block(body)
                except _Continue:
                    pass
                except (_Break, _Return, _Raise, Infeasible):
                    # the sampled iteration left the loop: its effects are those of an iteration that does not continue
                    rec.__dict__["sample_exited"] = True
                for e in run.effects[mark:]:
                    if e.extra is None or isinstance(e.extra, dict):
                        e.extra = dict(e.extra or {}, in_loop=lid)
                    e.__dict__["in_loop"] = lid
                    e.__dict__["in_loop_rec"] = rec      # this execution of the loop statement (the same statement may run several times)
                fr.env.clear()
                fr.env.update(saved_env)
            rec.__dict__["active"] = False
            for n in cont_assigned:
                fr.env[n] = self.generalise(n, fr.env[n], lid, "after")
            if isinstance(st, ast.For):
                for n in _names(st.target):
                    fr.env.setdefault(n, SUnknown(f"loop variable {n} after loop"))
            self.exec_block(st.orelse)  # type: ignore[attr-defined]
            return
        # one generic iteration that leaves the loop
        enter_body(cont_assigned)
        try:
            self.exec_block(body)
        except _Continue:
            raise_infeasible()
        except _Break:
            if choice != "break":
                raise_infeasible()
            return
        except (_Return, _Raise):
            if choice != "exit":
                raise_infeasible()
            raise
        raise_infeasible()


def raise_infeasible() -> None:
    from .interp import Infeasible
    raise Infeasible()


def _names(t: ast.expr) -> List[str]:
    if isinstance(t, ast.Name):
        return [t.id]
    if isinstance(t, (ast.Tuple, ast.List)):
        out: List[str] = []
        for e in t.elts:
            out.extend(_names(e))
        return out
    return []
